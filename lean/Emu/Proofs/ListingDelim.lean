/-
  Listing with a delimiter: the whole pagination (C11).  Part 1: what `collapse` computes, and the
  block structure of a sorted name list (names that roll up into the same prefix are contiguous).
-/
import Emu.Proofs.Listing

namespace Emu.Proofs.ListingDelim
open Emu Emu.Gcs Emu.Proofs.Listing Emu.Proofs.Drop

/-! ### `indexOf` is the first occurrence -/

theorem indexOf_some_spec (d : Bytes) : ∀ (s : Bytes) (i : Nat), indexOf d s = some i →
    d.isPrefixOf (s.drop i) = true ∧ i ≤ s.length ∧ ∀ j, j < i → d.isPrefixOf (s.drop j) = false
  | [], i, h => by
    simp only [indexOf] at h
    split at h
    · cases h
      rename_i hd
      have : d = [] := by simpa using hd
      subst this
      exact ⟨by simp, by simp, fun j hj => absurd hj (Nat.not_lt_zero _)⟩
    · cases h
  | x :: xs, i, h => by
    simp only [indexOf] at h
    split at h
    · cases h
      rename_i hp
      exact ⟨by simpa using hp, by simp, fun j hj => absurd hj (Nat.not_lt_zero _)⟩
    · rename_i hnp
      cases hr : indexOf d xs with
      | none => simp [hr] at h
      | some k =>
        simp only [hr, Option.some.injEq] at h
        subst h
        obtain ⟨h1, h2, h3⟩ := indexOf_some_spec d xs k hr
        refine ⟨by simpa using h1, by simp; omega, ?_⟩
        intro j hj
        cases j with
        | zero => simp only [List.drop_zero]; exact Bool.eq_false_iff.mpr hnp
        | succ j => simpa using h3 j (by omega)

theorem indexOf_none_spec (d : Bytes) : ∀ (s : Bytes), indexOf d s = none → ∀ j, j ≤ s.length → d.isPrefixOf (s.drop j) = false
  | [], h, j, hj => by
    simp only [indexOf] at h
    split at h
    · cases h
    · rename_i hd
      have : j = 0 := by simpa using hj
      subst this
      cases d with
      | nil => simp at hd
      | cons a t => simp
  | x :: xs, h, j, hj => by
    simp only [indexOf] at h
    split at h
    · cases h
    · rename_i hnp
      cases hr : indexOf d xs with
      | some k => simp [hr] at h
      | none =>
        cases j with
        | zero => simp only [List.drop_zero]; exact Bool.eq_false_iff.mpr hnp
        | succ j => simpa using indexOf_none_spec d xs hr j (by simpa using hj)

/-- the first occurrence is determined by the first `i + |d|` bytes -/
theorem indexOf_of_first (d : Bytes) (s : Bytes) (i : Nat)
    (h1 : d.isPrefixOf (s.drop i) = true) (h2 : i ≤ s.length) (h3 : ∀ j, j < i → d.isPrefixOf (s.drop j) = false) :
    indexOf d s = some i := by
  cases hr : indexOf d s with
  | none => have := indexOf_none_spec d s hr i h2; rw [h1] at this; cases this
  | some k =>
    obtain ⟨k1, k2, k3⟩ := indexOf_some_spec d s k hr
    rcases Nat.lt_trichotomy k i with hlt | heq | hgt
    · have := h3 k hlt; rw [k1] at this; cases this
    · rw [heq]
    · have := k3 i hgt; rw [h1] at this; cases this

/-! ### `collapse` of a name depends only on the name's bytes up to the end of the first delimiter -/

theorem isPrefixOf_eq_decide (d x : Bytes) : d.isPrefixOf x = decide (d = x.take d.length) := by
  cases h : d.isPrefixOf x with
  | true => rw [List.isPrefixOf_iff_prefix, List.prefix_iff_eq_take] at h; simp [← h]
  | false =>
    have : ¬ (d = x.take d.length) := by
      intro he
      have : d.isPrefixOf x = true := by rw [List.isPrefixOf_iff_prefix, List.prefix_iff_eq_take]; exact he
      rw [h] at this; cases this
    simp [this]

/-- whether `d` occurs at position `j` is decided by the first `j + |d|` bytes -/
theorem isPrefixOf_drop_congr (d s t : Bytes) (j m : Nat) (hm : j + d.length ≤ m) (h : s.take m = t.take m) :
    d.isPrefixOf (s.drop j) = d.isPrefixOf (t.drop j) := by
  rw [isPrefixOf_eq_decide, isPrefixOf_eq_decide]
  have e : ∀ x : Bytes, (x.drop j).take d.length = ((x.take m).drop j).take d.length := by
    intro x
    rw [List.take_drop, List.take_drop, List.take_take]
    congr 2
    omega
  rw [e s, e t, h]

theorem collapse_some_iff (pfx delim n cp : Bytes) :
    collapse pfx delim n = some cp ↔
      delim ≠ [] ∧ ∃ i, indexOf delim (n.drop pfx.length) = some i ∧ cp = n.take (pfx.length + i + delim.length) := by
  unfold collapse
  constructor
  · intro h
    split at h
    · cases h
    · rename_i hd
      cases hi : indexOf delim (n.drop pfx.length) with
      | none => simp [hi] at h
      | some i =>
        simp only [hi, Option.some.injEq] at h
        exact ⟨by intro h0; simp [h0] at hd, i, rfl, h.symm⟩
  · rintro ⟨hd, i, hi, hcp⟩
    have : delim.isEmpty = false := by cases delim with | nil => exact absurd rfl hd | cons _ _ => rfl
    simp [this, hi, hcp]

/-- **(C)** a name that starts with the rolled-up prefix `cp` of another name rolls up into `cp` too -/
theorem collapse_of_hasPrefix (pfx delim a b cp : Bytes) (ha : collapse pfx delim a = some cp)
    (hb : Bytes.hasPrefix b cp = true) : collapse pfx delim b = some cp := by
  obtain ⟨hd, i, hi, hcp⟩ := (collapse_some_iff pfx delim a cp).mp ha
  obtain ⟨h1, h2, h3⟩ := indexOf_some_spec delim _ i hi
  -- lengths
  have hpre : delim <+: (a.drop pfx.length).drop i := List.isPrefixOf_iff_prefix.mp h1
  have hlen : delim.length ≤ ((a.drop pfx.length).drop i).length := hpre.length_le
  simp only [List.length_drop] at hlen h2
  have hdpos : 0 < delim.length := by
    cases delim with
    | nil => exact absurd rfl hd
    | cons _ _ => simp
  have hcplen : cp.length = pfx.length + i + delim.length := by
    rw [hcp, List.length_take]; omega
  have hbt : b.take (pfx.length + i + delim.length) = cp := by
    have := (hasPrefix_iff_take b cp).mp hb
    rw [hcplen] at this; exact this
  have hat : a.take (pfx.length + i + delim.length) = cp := hcp.symm
  -- the two names agree on those bytes, so the first occurrence is at the same place
  have hagree : (b.drop pfx.length).take (i + delim.length) = (a.drop pfx.length).take (i + delim.length) := by
    rw [List.take_drop, List.take_drop]
    have e : pfx.length + (i + delim.length) = pfx.length + i + delim.length := by omega
    rw [e, hbt, hat]
  have hblen : pfx.length + i + delim.length ≤ b.length := by
    have := congrArg List.length hbt
    rw [List.length_take, hcplen] at this; omega
  have hocc : ∀ j, j ≤ i → delim.isPrefixOf ((b.drop pfx.length).drop j) = delim.isPrefixOf ((a.drop pfx.length).drop j) :=
    fun j hj => isPrefixOf_drop_congr delim _ _ j (i + delim.length) (by omega) hagree
  have hib : indexOf delim (b.drop pfx.length) = some i := by
    apply indexOf_of_first
    · rw [hocc i (Nat.le_refl _)]; exact h1
    · simp only [List.length_drop]; omega
    · intro j hj; rw [hocc j (Nat.le_of_lt hj)]; exact h3 j hj
  exact (collapse_some_iff pfx delim b cp).mpr ⟨hd, i, hib, hbt.symm⟩

/-- a rolled-up prefix is a prefix of the name, and extends the listing prefix -/
theorem collapse_hasPrefix (pfx delim n cp : Bytes) (h : collapse pfx delim n = some cp) : Bytes.hasPrefix n cp = true := by
  obtain ⟨_, i, _, hcp⟩ := (collapse_some_iff pfx delim n cp).mp h
  rw [hasPrefix_iff_take, hcp, List.length_take, List.take_eq_take_iff]
  omega

/-- convexity: between two names with a common prefix, every name has it -/
theorem hasPrefix_between (p a b c : Bytes) (ha : Bytes.hasPrefix a p = true) (hc : Bytes.hasPrefix c p = true)
    (hab : a ≤ b) (hbc : b ≤ c) : Bytes.hasPrefix b p = true := by
  cases hb : Bytes.hasPrefix b p with
  | true => rfl
  | false =>
    have hpa : p ≤ a := by
      have := (hasPrefix_iff_take a p).mp ha
      rw [← this]; exact take_le a p.length
    have := prefix_block p b c (Std.le_trans hpa hab) hb hbc
    rw [hc] at this; cases this

/-- **(B)** block structure: between two names that roll up into `cp`, every name rolls up into `cp` -/
theorem collapse_between (pfx delim a b c cp : Bytes) (ha : collapse pfx delim a = some cp)
    (hc : collapse pfx delim c = some cp) (hab : a ≤ b) (hbc : b ≤ c) : collapse pfx delim b = some cp :=
  collapse_of_hasPrefix pfx delim a b cp ha
    (hasPrefix_between cp a b c (collapse_hasPrefix pfx delim a cp ha) (collapse_hasPrefix pfx delim c cp hc) hab hbc)

/-! ### one page over the relevant names -/

/-- the callback on a relevant name (beyond the cursor, with the prefix, not skipped) -/
def estep (pfx delim : Bytes) (max : Nat) (p : Page) (name : Bytes) : Page :=
  if p.stopped then p
  else
    match collapse pfx delim name with
    | some cp =>
      if p.prefixes.contains cp then { p with last := name }
      else if p.count ≥ max then { p with more := true, stopped := true }
      else { p with count := p.count + 1, prefixes := p.prefixes ++ [cp], last := name }
    | none =>
      if p.count ≥ max then { p with more := true, stopped := true }
      else { p with count := p.count + 1, items := p.items ++ [name], last := name }

theorem estep_stopped (pfx delim : Bytes) (max : Nat) (p : Page) (l : List Bytes) (h : p.stopped = true) :
    l.foldl (estep pfx delim max) p = p := by
  induction l with
  | nil => rfl
  | cons n ns ih => simp only [List.foldl_cons]; rw [show estep pfx delim max p n = p by simp [estep, h]]; exact ih

/-- names that are reported as items -/
def uitems (pfx delim : Bytes) (R : List Bytes) : List Bytes := R.filter fun n => (collapse pfx delim n).isNone

/-- rolled-up prefixes not yet on the page, each once, in order of first appearance -/
def newPrefs (pfx delim : Bytes) (P : List Bytes) (R : List Bytes) : List Bytes :=
  ((R.filterMap (collapse pfx delim)).filter (fun cp => !P.contains cp)).eraseDups

/-- is this name a new entry for a page that already carries the prefixes `P`? -/
def isNew (pfx delim : Bytes) (P : List Bytes) (n : Bytes) : Bool :=
  match collapse pfx delim n with
  | some cp => !P.contains cp
  | none => true

theorem getLast?_cons_getD (n : Bytes) (l : List Bytes) (d : Bytes) :
    ((n :: l).getLast?).getD d = (l.getLast?).getD n := by
  cases l with
  | nil => simp
  | cons y ys =>
    rw [List.getLast?_cons_cons]
    obtain ⟨z, hz⟩ : ∃ z, (y :: ys).getLast? = some z := ⟨_, List.getLast?_eq_some_getLast (by simp)⟩
    simp [hz]

/-- **One page**: the fold consumes an initial segment `R1` of the relevant names — all of it if
    there is room — reporting exactly its items and its new prefixes; it sets `more` iff a name is
    left, in which case that name is a new entry and the page is full. -/
theorem fold_estep (pfx delim : Bytes) (max : Nat) : ∀ (R : List Bytes) (p : Page),
    p.stopped = false → p.more = false →
    ∃ R1 R2, R = R1 ++ R2 ∧
      (R.foldl (estep pfx delim max) p).items = p.items ++ uitems pfx delim R1 ∧
      (R.foldl (estep pfx delim max) p).prefixes = p.prefixes ++ newPrefs pfx delim p.prefixes R1 ∧
      (R.foldl (estep pfx delim max) p).more = !R2.isEmpty ∧
      (R.foldl (estep pfx delim max) p).last = (R1.getLast?).getD p.last ∧
      (∀ h t, R2 = h :: t → isNew pfx delim (p.prefixes ++ newPrefs pfx delim p.prefixes R1) h = true) ∧
      (R1 = [] → R = [] ∨ p.count ≥ max ∨ R2 = [])
  | [], p, _, hm => ⟨[], [], rfl, by simp [uitems], by simp [newPrefs], by simp [hm], by simp, by simp, by simp⟩
  | n :: R, p, hns, hm => by
    simp only [List.foldl_cons]
    cases hc : collapse pfx delim n with
    | none =>
      by_cases hfull : p.count ≥ max
      · -- page full: stop here
        have hstep : estep pfx delim max p n = { p with more := true, stopped := true } := by simp [estep, hns, hc, hfull]
        rw [hstep, estep_stopped _ _ _ _ _ rfl]
        refine ⟨[], n :: R, rfl, by simp [uitems], by simp [newPrefs], by simp, by simp, ?_, by simp [hfull]⟩
        intro h t e; cases e; simp [isNew, hc]
      · have hstep : estep pfx delim max p n = { p with count := p.count + 1, items := p.items ++ [n], last := n } := by
          simp [estep, hns, hc, hfull]
        rw [hstep]
        obtain ⟨R1, R2, e, i1, i2, i3, i4, i5, _⟩ := fold_estep pfx delim max R { p with count := p.count + 1, items := p.items ++ [n], last := n } hns hm
        refine ⟨n :: R1, R2, by rw [e]; rfl, ?_, ?_, i3, ?_, ?_, by simp⟩
        · rw [i1]; simp [uitems, hc]
        · rw [i2]; simp [newPrefs, hc]
        · rw [i4]; exact (getLast?_cons_getD n R1 p.last).symm
        · intro h t e2
          have := i5 h t e2
          simpa [newPrefs, hc] using this
    | some cp =>
      by_cases hin : p.prefixes.contains cp = true
      · -- another name of a prefix already on the page
        have hin' : cp ∈ p.prefixes := by simpa using hin
        have hstep : estep pfx delim max p n = { p with last := n } := by simp [estep, hns, hc, hin']
        rw [hstep]
        obtain ⟨R1, R2, e, i1, i2, i3, i4, i5, _⟩ := fold_estep pfx delim max R { p with last := n } hns hm
        have hnp : newPrefs pfx delim p.prefixes (n :: R1) = newPrefs pfx delim p.prefixes R1 := by
          simp [newPrefs, hc, hin']
        refine ⟨n :: R1, R2, by rw [e]; rfl, ?_, ?_, i3, ?_, ?_, by simp⟩
        · rw [i1]; simp [uitems, hc]
        · rw [i2, hnp]
        · rw [i4]; exact (getLast?_cons_getD n R1 p.last).symm
        · intro h t e2; rw [hnp]; exact i5 h t e2
      · have hnin : cp ∉ p.prefixes := by simpa using hin
        by_cases hfull : p.count ≥ max
        · have hstep : estep pfx delim max p n = { p with more := true, stopped := true } := by simp [estep, hns, hc, hnin, hfull]
          rw [hstep, estep_stopped _ _ _ _ _ rfl]
          refine ⟨[], n :: R, rfl, by simp [uitems], by simp [newPrefs], by simp, by simp, ?_, by simp [hfull]⟩
          intro h t e; cases e; simp [isNew, hc, newPrefs, hnin]
        · have hstep : estep pfx delim max p n = { p with count := p.count + 1, prefixes := p.prefixes ++ [cp], last := n } := by
            simp [estep, hns, hc, hnin, hfull]
          rw [hstep]
          obtain ⟨R1, R2, e, i1, i2, i3, i4, i5, _⟩ := fold_estep pfx delim max R { p with count := p.count + 1, prefixes := p.prefixes ++ [cp], last := n } hns hm
          -- the new prefixes of n :: R1 w.r.t. P are cp followed by those of R1 w.r.t. P ++ [cp]
          have hnp : newPrefs pfx delim p.prefixes (n :: R1) = cp :: newPrefs pfx delim (p.prefixes ++ [cp]) R1 := by
            simp only [newPrefs, List.filterMap_cons, hc, List.filter_cons]
            have : (!p.prefixes.contains cp) = true := by simpa using hin
            simp only [this, if_true, List.eraseDups_cons, List.filter_filter]
            congr 2
            apply List.filter_congr
            intro x _
            by_cases hx : x = cp <;> simp [hx, Bool.and_comm]
          refine ⟨n :: R1, R2, by rw [e]; rfl, ?_, ?_, i3, ?_, ?_, by simp⟩
          · rw [i1]; simp [uitems, hc]
          · rw [i2, hnp]; simp
          · rw [i4]; exact (getLast?_cons_getD n R1 p.last).symm
          · intro h t e2
            have := i5 h t e2
            rw [hnp]
            simpa using this

/-! ### the real callback over all names = the simplified one over the relevant names -/

def relevant (pfx cursor skip : Bytes) (n : Bytes) : Bool :=
  decide (cursor < n) && Bytes.hasPrefix n pfx && !(!skip.isEmpty && Bytes.hasPrefix n skip)

/-- what a page reports (everything but the internal `stopped` flag) -/
def core (p : Page) : List Bytes × List Bytes × Nat × Bool × Bytes := (p.items, p.prefixes, p.count, p.more, p.last)

theorem gt_not_hasPrefix (n pfx : Bytes) (h : greaterThanPrefix n pfx = true) : Bytes.hasPrefix n pfx = false :=
  gt_no_prefix n n pfx h (Std.le_refl _)

theorem fold_pageStep_core (pfx delim cursor skip : Bytes) (max : Nat) (names : List Bytes) (hs : NamesSorted names) (p : Page) :
    core (names.foldl (pageStep pfx delim cursor skip max) p) =
      core ((names.filter (relevant pfx cursor skip)).foldl (estep pfx delim max) p) := by
  induction names generalizing p with
  | nil => rfl
  | cons n ns ih =>
    unfold NamesSorted at hs ih
    rw [List.pairwise_cons] at hs
    by_cases hst : p.stopped = true
    · rw [foldl_stopped _ _ _ _ _ _ _ hst, estep_stopped _ _ _ _ _ hst]
    · have hns : p.stopped = false := by simpa using hst
      simp only [List.foldl_cons]
      by_cases hgt : greaterThanPrefix n pfx = true
      · have hstep : pageStep pfx delim cursor skip max p n = { p with stopped := true } := by simp [pageStep, hns, hgt]
        rw [hstep, foldl_stopped _ _ _ _ _ _ _ rfl]
        have hnone : (n :: ns).filter (relevant pfx cursor skip) = [] := by
          rw [List.filter_eq_nil_iff]
          intro x hx
          have hle : n ≤ x := by
            simp only [List.mem_cons] at hx
            cases hx with
            | inl e => rw [e]; exact Std.le_refl _
            | inr hx => exact Std.le_of_lt (hs.1 x hx)
          simp [relevant, gt_no_prefix n x pfx hgt hle]
        rw [hnone]; rfl
      · by_cases hrel : relevant pfx cursor skip n = true
        · have hr := hrel
          simp only [relevant, Bool.and_eq_true, decide_eq_true_eq, Bool.not_eq_true', Bool.and_eq_false_iff, Bool.not_eq_false'] at hr
          obtain ⟨⟨hcur, hpf⟩, hsk⟩ := hr
          have hcur' : ¬ n ≤ cursor := by grind
          have hskip : (!skip.isEmpty && Bytes.hasPrefix n skip) = false := by
            cases hsk with
            | inl h => simp [h]
            | inr h => simp [h]
          have hstep : pageStep pfx delim cursor skip max p n = estep pfx delim max p n := by
            unfold pageStep estep
            simp only [hns, Bool.false_eq_true, if_false, hgt, hcur', decide_false, hpf, Bool.not_true, hskip]
            cases collapse pfx delim n <;> simp [hns]
          rw [hstep, List.filter_cons, hrel]
          simp only [if_true, List.foldl_cons]
          exact ih hs.2 _
        · have hstep : pageStep pfx delim cursor skip max p n = p := by
            have hr : relevant pfx cursor skip n = false := by simpa using hrel
            unfold pageStep
            simp only [hns, Bool.false_eq_true, if_false, hgt]
            by_cases hc1 : n ≤ cursor
            · simp [hc1]
            · have hlt : cursor < n := by grind
              simp only [hc1, decide_false, Bool.false_eq_true, if_false]
              by_cases hp : Bytes.hasPrefix n pfx = true
              · simp only [hp, Bool.not_true, Bool.false_eq_true, if_false]
                simp only [relevant, hlt, decide_true, hp, Bool.and_self, Bool.true_and, Bool.not_eq_false'] at hr
                simp [hr]
              · simp [hp]
          rw [hstep, List.filter_cons]
          simp only [hrel, Bool.false_eq_true, if_false]
          exact ih hs.2 _

end Emu.Proofs.ListingDelim
