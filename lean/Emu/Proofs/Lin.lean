/-
  Invariants of the one-lock system: mutual exclusion, and "the shared state and every result are
  those of running the operations one at a time in linearisation order".
-/
import Emu.Conc.Lin

namespace Emu.Proofs.Lin
open Emu.Conc

variable {σ ρ : Type}

theorem seqRun_append (f : Nat → σ → σ × ρ) (st : σ) (l : List Nat) (i : Nat) :
    (seqRun f st (l ++ [i])).1 = (f i (seqRun f st l).1).1 ∧
    (seqRun f st (l ++ [i])).2 = (seqRun f st l).2 ++ [(i, (f i (seqRun f st l).1).2)] := by
  induction l generalizing st with
  | nil => simp [seqRun]
  | cons x xs ih =>
    simp only [List.cons_append, seqRun]
    have := ih (f x st).1
    exact ⟨this.1, by rw [this.2]⟩

def working (pc : Pc) : Prop := pc = .inside ∨ pc = .worked
def linearised (pc : Pc) : Prop := pc = .worked ∨ pc = .released ∨ pc = .finished

structure Good (f : Nat → σ → σ × ρ) (st0 : σ) (s : Sys σ ρ) : Prop where
  /-- the lock is held exactly by the goroutine inside its critical section -/
  holder : ∀ (i : Nat) (th : Th ρ), s.ths[i]? = some th → (working th.pc ↔ s.holder = some i)
  /-- the shared state is the sequential run of the linearised operations -/
  state : s.st = (seqRun f st0 s.lin).1
  /-- every recorded result is the one the sequential run produces -/
  results : ∀ (i : Nat) (th : Th ρ) (r : ρ), s.ths[i]? = some th → th.res = some r → (i, r) ∈ (seqRun f st0 s.lin).2
  lin_iff : ∀ (i : Nat) (th : Th ρ), s.ths[i]? = some th → (i ∈ s.lin ↔ linearised th.pc)
  snap_le : ∀ (i : Nat) (th : Th ρ), s.ths[i]? = some th → th.snap ≤ s.lin.length ∧ (linearised th.pc → th.pc ≠ .notStarted)
  /-- everything that had responded before a goroutine invoked is linearised before its snapshot … -/
  before : ∀ (i : Nat) (th : Th ρ), s.ths[i]? = some th → ∀ j ∈ th.before, j ∈ s.lin.take th.snap
  /-- … and the goroutine itself is linearised after it -/
  after : ∀ (i : Nat) (th : Th ρ), s.ths[i]? = some th → th.pc ≠ .notStarted → i ∉ s.lin.take th.snap
  finished_lin : ∀ (i : Nat) (th : Th ρ), s.ths[i]? = some th → th.pc = .finished → i ∈ s.lin
  nodup : s.lin.Nodup

theorem good_init (f : Nat → σ → σ × ρ) (st0 : σ) (n : Nat) : Good f st0 (init st0 n : Sys σ ρ) := by
  have hget : ∀ (i : Nat) (th : Th ρ), (init st0 n : Sys σ ρ).ths[i]? = some th → th = ({} : Th ρ) := by
    intro i th h
    simp only [init, List.getElem?_replicate] at h
    split at h
    · cases h; rfl
    · cases h
  refine ⟨?_, rfl, ?_, ?_, ?_, ?_, ?_, ?_, by simp [init]⟩
  · intro i th h; rw [hget i th h]; simp [working, init]
  · intro i th r h hr; rw [hget i th h] at hr; cases hr
  · intro i th h; rw [hget i th h]; simp [linearised, init]
  · intro i th h; rw [hget i th h]; simp [linearised]
  · intro i th h j hj; rw [hget i th h] at hj; cases hj
  · intro i th h hne; rw [hget i th h] at hne; exact absurd rfl hne
  · intro i th h hf; rw [hget i th h] at hf; cases hf

theorem getElem?_set_cases {α} (l : List α) (i j : Nat) (a x : α) (h : (l.set i a)[j]? = some x) :
    (i = j ∧ x = a) ∨ (i ≠ j ∧ l[j]? = some x) := by
  rw [List.getElem?_set] at h
  by_cases hij : i = j
  · simp only [hij, if_true] at h
    split at h
    · cases h; exact Or.inl ⟨hij, rfl⟩
    · cases h
  · simp only [hij, if_false] at h; exact Or.inr ⟨hij, h⟩

/-- **Every enabled step keeps the system good.** -/
theorem good_step (f : Nat → σ → σ × ρ) (st0 : σ) (s s' : Sys σ ρ) (i : Nat) (a : Act)
    (hg : Good f st0 s) (h : step f s i a = some s') : Good f st0 s' := by
  unfold step at h
  cases hth : s.ths[i]? with
  | none => simp [hth] at h
  | some th =>
    simp only [hth] at h
    cases hpc : th.pc <;> cases a <;> simp only [hpc] at h <;> try (cases h; done)
    · -- invoke
      cases h
      refine ⟨?_, hg.state, ?_, ?_, ?_, ?_, ?_, ?_, hg.nodup⟩
      · intro j tj hj
        rcases getElem?_set_cases _ _ _ _ _ hj with ⟨rfl, rfl⟩ | ⟨hne, hj'⟩
        · have := (hg.holder i th hth); simp only [working, hpc] at this ⊢; simpa using this
        · exact hg.holder j tj hj'
      · intro j tj r hj hr
        rcases getElem?_set_cases _ _ _ _ _ hj with ⟨rfl, rfl⟩ | ⟨hne, hj'⟩
        · exact hg.results i th r hth hr
        · exact hg.results j tj r hj' hr
      · intro j tj hj
        rcases getElem?_set_cases _ _ _ _ _ hj with ⟨rfl, rfl⟩ | ⟨hne, hj'⟩
        · have := hg.lin_iff i th hth; simp only [linearised, hpc] at this ⊢; simpa using this
        · exact hg.lin_iff j tj hj'
      · intro j tj hj
        rcases getElem?_set_cases _ _ _ _ _ hj with ⟨rfl, rfl⟩ | ⟨hne, hj'⟩
        · simp [linearised]
        · exact hg.snap_le j tj hj'
      · intro j tj hj k hk
        rcases getElem?_set_cases _ _ _ _ _ hj with ⟨rfl, rfl⟩ | ⟨hne, hj'⟩
        · simp only [List.mem_filter, List.mem_range] at hk
          obtain ⟨hlt, hfin⟩ := hk
          cases hk' : s.ths[k]? with
          | none => simp [hk'] at hfin
          | some tk =>
            simp only [hk', beq_iff_eq] at hfin
            have := hg.finished_lin k tk hk' hfin
            simpa [List.take_length] using this
        · exact hg.before j tj hj' k hk
      · intro j tj hj hne'
        rcases getElem?_set_cases _ _ _ _ _ hj with ⟨rfl, rfl⟩ | ⟨hne, hj'⟩
        · simp only [List.take_length]
          intro hm
          have := (hg.lin_iff i th hth).mp hm
          simp [linearised, hpc] at this
        · exact hg.after j tj hj' hne'
      · intro j tj hj hf
        rcases getElem?_set_cases _ _ _ _ _ hj with ⟨rfl, rfl⟩ | ⟨hne, hj'⟩
        · cases hf
        · exact hg.finished_lin j tj hj' hf
    · -- acquire
      cases hh : s.holder with
      | some _ => simp [hh] at h
      | none =>
        simp only [hh, Option.some.injEq] at h
        subst h
        refine ⟨?_, hg.state, ?_, ?_, ?_, ?_, ?_, ?_, hg.nodup⟩
        · intro j tj hj
          rcases getElem?_set_cases _ _ _ _ _ hj with ⟨rfl, rfl⟩ | ⟨hne, hj'⟩
          · simp [working]
          · have := hg.holder j tj hj'
            rw [hh] at this
            simp only [Option.some.injEq]
            constructor
            · intro hw; exact absurd (this.mp hw) (by simp)
            · intro e; exact absurd e hne
        · intro j tj r hj hr
          rcases getElem?_set_cases _ _ _ _ _ hj with ⟨rfl, rfl⟩ | ⟨hne, hj'⟩
          · exact hg.results i th r hth hr
          · exact hg.results j tj r hj' hr
        · intro j tj hj
          rcases getElem?_set_cases _ _ _ _ _ hj with ⟨rfl, rfl⟩ | ⟨hne, hj'⟩
          · have := hg.lin_iff i th hth; simp only [linearised, hpc] at this ⊢; simpa using this
          · exact hg.lin_iff j tj hj'
        · intro j tj hj
          rcases getElem?_set_cases _ _ _ _ _ hj with ⟨rfl, rfl⟩ | ⟨hne, hj'⟩
          · exact ⟨(hg.snap_le i th hth).1, by simp [linearised]⟩
          · exact hg.snap_le j tj hj'
        · intro j tj hj k hk
          rcases getElem?_set_cases _ _ _ _ _ hj with ⟨rfl, rfl⟩ | ⟨hne, hj'⟩
          · exact hg.before i th hth k hk
          · exact hg.before j tj hj' k hk
        · intro j tj hj hne'
          rcases getElem?_set_cases _ _ _ _ _ hj with ⟨rfl, rfl⟩ | ⟨hne, hj'⟩
          · exact hg.after i th hth (by simp [hpc])
          · exact hg.after j tj hj' hne'
        · intro j tj hj hf
          rcases getElem?_set_cases _ _ _ _ _ hj with ⟨rfl, rfl⟩ | ⟨hne, hj'⟩
          · cases hf
          · exact hg.finished_lin j tj hj' hf
    · -- work
      cases h
      have hnot : i ∉ s.lin := by
        intro hm; have := (hg.lin_iff i th hth).mp hm; simp [linearised, hpc] at this
      have hsa := seqRun_append f st0 s.lin i
      refine ⟨?_, ?_, ?_, ?_, ?_, ?_, ?_, ?_, ?_⟩
      rotate_right
      · simp only; rw [List.nodup_append]
        exact ⟨hg.nodup, by simp, fun a ha b hb => by simp only [List.mem_singleton] at hb; subst hb; intro e; subst e; exact hnot ha⟩
      · intro j tj hj
        rcases getElem?_set_cases _ _ _ _ _ hj with ⟨rfl, rfl⟩ | ⟨hne, hj'⟩
        · have := hg.holder i th hth; simp only [working, hpc] at this ⊢; simpa using this
        · exact hg.holder j tj hj'
      · simp only; rw [hsa.1, ← hg.state]
      · intro j tj r hj hr
        simp only at hr ⊢
        rw [hsa.2]
        rcases getElem?_set_cases _ _ _ _ _ hj with ⟨rfl, rfl⟩ | ⟨hne, hj'⟩
        · simp only [Option.some.injEq] at hr
          subst hr
          rw [← hg.state]; simp
        · exact List.mem_append_left _ (hg.results j tj r hj' hr)
      · intro j tj hj
        simp only [List.mem_append, List.mem_singleton]
        rcases getElem?_set_cases _ _ _ _ _ hj with ⟨rfl, rfl⟩ | ⟨hne, hj'⟩
        · simp [linearised]
        · have := hg.lin_iff j tj hj'
          constructor
          · intro hm
            cases hm with
            | inl hm => exact this.mp hm
            | inr e => exact absurd e.symm hne
          · intro hl; exact Or.inl (this.mpr hl)
      · intro j tj hj
        simp only [List.length_append, List.length_singleton]
        rcases getElem?_set_cases _ _ _ _ _ hj with ⟨rfl, rfl⟩ | ⟨hne, hj'⟩
        · exact ⟨by have := (hg.snap_le i th hth).1; simp only; omega, by simp⟩
        · have := hg.snap_le j tj hj'; exact ⟨by omega, this.2⟩
      · intro j tj hj k hk
        have hmono : ∀ (n : Nat), n ≤ s.lin.length → (s.lin ++ [i]).take n = s.lin.take n := by
          intro n hn; rw [List.take_append_of_le_length hn]
        rcases getElem?_set_cases _ _ _ _ _ hj with ⟨rfl, rfl⟩ | ⟨hne, hj'⟩
        · simp only; rw [hmono _ (hg.snap_le i th hth).1]; exact hg.before i th hth k hk
        · rw [hmono _ (hg.snap_le j tj hj').1]; exact hg.before j tj hj' k hk
      · intro j tj hj hne'
        have hmono : ∀ (n : Nat), n ≤ s.lin.length → (s.lin ++ [i]).take n = s.lin.take n := by
          intro n hn; rw [List.take_append_of_le_length hn]
        rcases getElem?_set_cases _ _ _ _ _ hj with ⟨rfl, rfl⟩ | ⟨hne, hj'⟩
        · simp only; rw [hmono _ (hg.snap_le i th hth).1]
          intro hm; exact hnot (List.mem_of_mem_take hm)
        · rw [hmono _ (hg.snap_le j tj hj').1]; exact hg.after j tj hj' hne'
      · intro j tj hj hf
        simp only [List.mem_append, List.mem_singleton]
        rcases getElem?_set_cases _ _ _ _ _ hj with ⟨rfl, rfl⟩ | ⟨hne, hj'⟩
        · cases hf
        · exact Or.inl (hg.finished_lin j tj hj' hf)
    · -- release
      cases h
      have hhold : s.holder = some i := (hg.holder i th hth).mp (by simp [working, hpc])
      refine ⟨?_, hg.state, ?_, ?_, ?_, ?_, ?_, ?_, hg.nodup⟩
      · intro j tj hj
        rcases getElem?_set_cases _ _ _ _ _ hj with ⟨rfl, rfl⟩ | ⟨hne, hj'⟩
        · simp [working]
        · have := hg.holder j tj hj'
          rw [hhold] at this
          simp only [Option.some.injEq] at this
          constructor
          · intro hw; exact absurd (this.mp hw) hne
          · intro e; cases e
      · intro j tj r hj hr
        rcases getElem?_set_cases _ _ _ _ _ hj with ⟨rfl, rfl⟩ | ⟨hne, hj'⟩
        · exact hg.results i th r hth hr
        · exact hg.results j tj r hj' hr
      · intro j tj hj
        rcases getElem?_set_cases _ _ _ _ _ hj with ⟨rfl, rfl⟩ | ⟨hne, hj'⟩
        · have := hg.lin_iff i th hth; simp only [linearised, hpc] at this ⊢; simpa using this
        · exact hg.lin_iff j tj hj'
      · intro j tj hj
        rcases getElem?_set_cases _ _ _ _ _ hj with ⟨rfl, rfl⟩ | ⟨hne, hj'⟩
        · exact ⟨(hg.snap_le i th hth).1, by simp⟩
        · exact hg.snap_le j tj hj'
      · intro j tj hj k hk
        rcases getElem?_set_cases _ _ _ _ _ hj with ⟨rfl, rfl⟩ | ⟨hne, hj'⟩
        · exact hg.before i th hth k hk
        · exact hg.before j tj hj' k hk
      · intro j tj hj hne'
        rcases getElem?_set_cases _ _ _ _ _ hj with ⟨rfl, rfl⟩ | ⟨hne, hj'⟩
        · exact hg.after i th hth (by simp [hpc])
        · exact hg.after j tj hj' hne'
      · intro j tj hj hf
        rcases getElem?_set_cases _ _ _ _ _ hj with ⟨rfl, rfl⟩ | ⟨hne, hj'⟩
        · cases hf
        · exact hg.finished_lin j tj hj' hf
    · -- respond
      cases h
      refine ⟨?_, hg.state, ?_, ?_, ?_, ?_, ?_, ?_, hg.nodup⟩
      · intro j tj hj
        rcases getElem?_set_cases _ _ _ _ _ hj with ⟨rfl, rfl⟩ | ⟨hne, hj'⟩
        · have := hg.holder i th hth; simp only [working, hpc] at this ⊢; simpa using this
        · exact hg.holder j tj hj'
      · intro j tj r hj hr
        rcases getElem?_set_cases _ _ _ _ _ hj with ⟨rfl, rfl⟩ | ⟨hne, hj'⟩
        · exact hg.results i th r hth hr
        · exact hg.results j tj r hj' hr
      · intro j tj hj
        rcases getElem?_set_cases _ _ _ _ _ hj with ⟨rfl, rfl⟩ | ⟨hne, hj'⟩
        · have := hg.lin_iff i th hth; simp only [linearised, hpc] at this ⊢; simpa using this
        · exact hg.lin_iff j tj hj'
      · intro j tj hj
        rcases getElem?_set_cases _ _ _ _ _ hj with ⟨rfl, rfl⟩ | ⟨hne, hj'⟩
        · exact ⟨(hg.snap_le i th hth).1, by simp⟩
        · exact hg.snap_le j tj hj'
      · intro j tj hj k hk
        rcases getElem?_set_cases _ _ _ _ _ hj with ⟨rfl, rfl⟩ | ⟨hne, hj'⟩
        · exact hg.before i th hth k hk
        · exact hg.before j tj hj' k hk
      · intro j tj hj hne'
        rcases getElem?_set_cases _ _ _ _ _ hj with ⟨rfl, rfl⟩ | ⟨hne, hj'⟩
        · exact hg.after i th hth (by simp [hpc])
        · exact hg.after j tj hj' hne'
      · intro j tj hj hf
        rcases getElem?_set_cases _ _ _ _ _ hj with ⟨rfl, rfl⟩ | ⟨hne, hj'⟩
        · exact (hg.lin_iff i th hth).mpr (by simp [linearised, hpc])
        · exact hg.finished_lin j tj hj' hf

theorem good_run (f : Nat → σ → σ × ρ) (st0 : σ) (sched : List (Nat × Act)) (s s' : Sys σ ρ)
    (hg : Good f st0 s) (h : run f s sched = some s') : Good f st0 s' := by
  induction sched generalizing s with
  | nil => simp [run] at h; rw [← h]; exact hg
  | cons x xs ih =>
    obtain ⟨i, a⟩ := x
    simp only [run] at h
    cases hs : step f s i a with
    | none => simp [hs] at h
    | some s1 => simp only [hs] at h; exact ih s1 (good_step f st0 s s1 i a hg hs) h

end Emu.Proofs.Lin
