/-
  Helper lemmas about the GCS Model (used by Props C02, C04, C10, C15).
-/
import Emu.Gcs.Server

namespace Emu.Proofs.Gcs
open Emu Emu.Gcs

/-! ### the object store: lookup after update -/

theorem Objs.get_put_self (os : Objs) (o : Obj) : (os.put o).get o.name = some o := by
  induction os with
  | nil => simp [Objs.put, Objs.get]
  | cons x xs ih =>
    unfold Objs.put
    split
    · simp [Objs.get]
    · split
      · simp [Objs.get]
      · rename_i h1 h2
        have hne : (x.name == o.name) = false := by
          simp only [beq_eq_false_iff_ne, ne_eq]
          intro h; exact h2 h.symm
        simp only [Objs.get, hne]
        exact ih

theorem Objs.get_put_other (os : Objs) (o : Obj) (n : Bytes) (h : n ≠ o.name) :
    (os.put o).get n = os.get n := by
  have hon : (o.name == n) = false := by simp [beq_eq_false_iff_ne]; exact fun e => h e.symm
  induction os with
  | nil => simp [Objs.put, Objs.get, hon]
  | cons x xs ih =>
    unfold Objs.put
    split
    · simp [Objs.get, hon]
    · split
      · rename_i _ heq
        have hx : (x.name == n) = false := by
          simp [beq_eq_false_iff_ne]; rw [← heq]; exact fun e => h e.symm
        simp [Objs.get, hon, hx]
      · simp only [Objs.get]
        split
        · rfl
        · exact ih

theorem Objs.get_delete_self (os : Objs) (n : Bytes) : (os.delete n).get n = none := by
  induction os with
  | nil => rfl
  | cons x xs ih =>
    simp only [Objs.delete]
    split
    · exact ih
    · rename_i h; simp [Objs.get, h, ih]

theorem Objs.get_delete_other (os : Objs) (n k : Bytes) (h : k ≠ n) :
    (os.delete n).get k = os.get k := by
  induction os with
  | nil => rfl
  | cons x xs ih =>
    simp only [Objs.delete]
    split
    · rename_i hx
      have e : x.name = n := by simpa using hx
      have : (x.name == k) = false := by simp [beq_eq_false_iff_ne, e]; exact fun e => h e.symm
      simp [Objs.get, this, ih]
    · simp only [Objs.get]
      split
      · rfl
      · exact ih

theorem bucket?_setBucket_self (s : Store) (b : Bytes) (os : Objs) :
    (s.setBucket b os).bucket? b = some os := by
  simp [Store.setBucket, Store.bucket?]

theorem bucket?_setBucket_other (s : Store) (b b' : Bytes) (os : Objs) (h : b' ≠ b) :
    (s.setBucket b os).bucket? b' = s.bucket? b' := by
  simp [Store.setBucket, Store.bucket?, aget_aset_other _ _ _ _ h]

theorem obj?_add_self (s : Store) (b n c : Bytes) (m : Meta) :
    (s.add b n c m).obj? b n = some ⟨n, c, s.clock + 1, 1, m⟩ := by
  simp only [Store.add, Store.obj?, Store.bucket?, Store.setBucket, aget_aset_self]
  exact Objs.get_put_self _ ⟨n, c, s.clock + 1, 1, m⟩

theorem obj?_add_other (s : Store) (b n c : Bytes) (m : Meta) (b' n' : Bytes)
    (h : b' ≠ b ∨ n' ≠ n) : (s.add b n c m).obj? b' n' = s.obj? b' n' := by
  simp only [Store.add, Store.obj?, Store.bucket?, Store.setBucket]
  by_cases hb : b' = b
  · subst hb
    have hn : n' ≠ n := by cases h with | inl h => exact absurd rfl h | inr h => exact h
    simp only [aget_aset_self]
    rw [Objs.get_put_other _ _ _ (show n' ≠ (Obj.mk n c (s.clock+1) 1 m).name from hn)]
    cases aget s.buckets b' <;> simp [Objs.get]
  · rw [aget_aset_other _ _ _ _ hb]

/-! ### validateConds / parseConds -/

theorem validate_present_ok_iff (o : Obj) (c : Conds) :
    validateConds (some o) c = .ok ↔
      (c.doesNotExist = false ∧
      (c.genMatch = 0 ∨ (o.gen : Int) = c.genMatch) ∧
      (c.genNotMatch = 0 ∨ (o.gen : Int) ≠ c.genNotMatch) ∧
      (c.metaMatch = 0 ∨ (o.metagen : Int) = c.metaMatch) ∧
      (c.metaNotMatch = 0 ∨ (o.metagen : Int) ≠ c.metaNotMatch)) := by
  unfold validateConds
  simp only [bne_iff_ne, beq_iff_eq, Bool.and_eq_true, ne_eq]
  grind

theorem notModified_cause (o : Obj) (c : Conds) (h : validateConds (some o) c = .notModified) :
    (c.genNotMatch ≠ 0 ∧ (o.gen : Int) = c.genNotMatch) ∨
    (c.metaNotMatch ≠ 0 ∧ (o.metagen : Int) = c.metaNotMatch) := by
  unfold validateConds at h
  simp only [bne_iff_ne, beq_iff_eq, Bool.and_eq_true, ne_eq] at h
  grind

theorem precondition_cause (o : Obj) (c : Conds) (h : validateConds (some o) c = .preconditionFailed) :
    c.doesNotExist = true ∨ (c.genMatch ≠ 0 ∧ (o.gen : Int) ≠ c.genMatch) ∨
    (c.metaMatch ≠ 0 ∧ (o.metagen : Int) ≠ c.metaMatch) := by
  unfold validateConds at h
  simp only [bne_iff_ne, beq_iff_eq, Bool.and_eq_true, ne_eq] at h
  grind

theorem validate_absent_ok_iff (c : Conds) :
    validateConds none c = .ok ↔ (c = {} ∨ c = { doesNotExist := true }) := by
  unfold validateConds
  simp only [Bool.or_eq_true, decide_eq_true_eq]
  grind

theorem validate_absent_fail (c : Conds) (h : validateConds none c ≠ .ok) :
    validateConds none c = .preconditionFailed := by
  unfold validateConds at *
  grind

theorem parse_gm_zero (r : RawConds) (c : Conds) (h : parseConds r = some c) (h0 : r.gm = .num 0) :
    c.doesNotExist = true := by
  unfold parseConds at h
  split at h
  · cases h
  · cases h; simp [h0]

/-! ### which ops carry conditions; failure responses -/

def opConds : Op → Option RawConds
  | .upload _ _ _ _ _ c => some c
  | .resumeInit _ _ _ _ c => some c
  | .patch _ _ c _ => some c
  | .delete _ _ c => some c
  | .compose _ _ c _ _ => some c
  | _ => none

def isFailure : Resp → Bool
  | .status .badRequest => true
  | .status .notFound => true
  | .status .serverError => true
  | .status .precondition => true
  | .status .notModified => true
  | .condFail _ _ => true
  | _ => false

theorem step_bad_conds (s : Store) (op : Op) (r : RawConds) (h : opConds op = some r)
    (hbad : parseConds r = none) : step s op = (s, .status .badRequest) := by
  cases op <;> simp [opConds] at h <;> subst h <;> simp [step, hbad]

theorem finishUpload_ok_conds (s : Store) (b n content : Bytes) (m : Meta)
    (d : Option (Bool × Bool)) (c : Conds)
    (h : (finishUpload s b n content m d c).2 = .ok) : validateConds (s.obj? b n) c = .ok := by
  unfold finishUpload at h
  generalize validateConds (s.obj? b n) c = v at h ⊢
  cases v <;> (split at h <;> simp_all [CondResult.status])

theorem finishUpload_of_conds (s : Store) (b n content : Bytes) (m : Meta) (c : Conds)
    (h : validateConds (s.obj? b n) c = .ok) :
    finishUpload s b n content m none c = (s.add b n content m, .ok) := by
  simp [finishUpload, h]

/-- a failed `finishUpload` returns the store it was given -/
theorem finishUpload_fail_store (s : Store) (b n content : Bytes) (m : Meta)
    (d : Option (Bool × Bool)) (c : Conds) (h : (finishUpload s b n content m d c).2 ≠ .ok) :
    (finishUpload s b n content m d c).1 = s := by
  unfold finishUpload at *
  split
  · rfl
  · rfl
  · split
    · simp_all
    · rfl

theorem finishResp_fail (s : Store) (b n : Bytes) (res : Store × Status) (c : Conds)
    (hok : res.2 = .ok → (res.1.obj? b n).isSome)
    (h : isFailure (finishResp s b n res c).2 = true) : (finishResp s b n res c).1 = s := by
  obtain ⟨s1, st⟩ := res
  cases st <;> simp only [finishResp] at h ⊢
  have := hok rfl
  cases ho : s1.obj? b n with
  | none => simp [ho] at this
  | some o => simp [ho, isFailure] at h

theorem finishUpload_ok_obj (s : Store) (b n content : Bytes) (m : Meta)
    (d : Option (Bool × Bool)) (c : Conds) (h : (finishUpload s b n content m d c).2 = .ok) :
    ((finishUpload s b n content m d c).1.obj? b n).isSome := by
  have hc := finishUpload_ok_conds s b n content m d c h
  unfold finishUpload at h ⊢
  split
  · simp_all
  · simp_all
  · simp [hc, obj?_add_self]

theorem obj?_congr (s t : Store) (h : s.buckets = t.buckets) (b n : Bytes) : s.obj? b n = t.obj? b n := by
  simp [Store.obj?, Store.bucket?, h]

theorem resumeFinish_fail (s1 : Store) (u : Upload) (idx : Nat) (d : Bytes)
    (h : isFailure (resumeFinish s1 u idx d).2 = true) :
    (resumeFinish s1 u idx d).1.buckets = s1.buckets ∧ (resumeFinish s1 u idx d).1.clock = s1.clock := by
  unfold resumeFinish at h ⊢
  simp only at h ⊢
  generalize hs2 : (if md5Passes (effectiveDeclared u d) = true then s1.pin idx d else s1) = s2 at h ⊢
  have hb : s2.buckets = s1.buckets ∧ s2.clock = s1.clock := by
    subst hs2; split <;> simp [Store.pin]
  have hobj0 := finishUpload_ok_obj s2 u.bucket u.name d u.meta (effectiveDeclared u d) u.conds
  generalize finishUpload s2 u.bucket u.name d u.meta (effectiveDeclared u d) u.conds = fu at h hobj0 ⊢
  by_cases hok : fu.2 = .ok
  · simp only [hok, if_true] at h ⊢
    have hobj' : ((fu.1.dropUpload idx).obj? u.bucket u.name).isSome := by
      rw [obj?_congr _ fu.1 (by simp [Store.dropUpload])]
      exact hobj0 hok
    have := finishResp_fail s2 u.bucket u.name (fu.1.dropUpload idx, Status.ok) u.conds (fun _ => hobj') h
    rw [this]; exact hb
  · simp only [hok, if_false] at h ⊢
    have := finishResp_fail s2 u.bucket u.name (s2, fu.2) u.conds (fun e => absurd e hok) h
    rw [this]; exact hb

/-- every failure response leaves buckets and clock as they were -/
theorem failure_frame (s : Store) (op : Op) (h : isFailure (step s op).2 = true) :
    (step s op).1.buckets = s.buckets ∧ (step s op).1.clock = s.clock := by
  cases op with
  | mkBucket b => simp only [step] at h; split at h <;> simp [isFailure] at h
  | getBucket b => simp only [step]; split <;> simp
  | upload b n content m d rc =>
    simp only [step] at h ⊢
    cases hp : parseConds rc with
    | none => simp
    | some c =>
      simp only [hp] at h ⊢
      have := finishResp_fail s b n (finishUpload s b n content m d c) c
        (finishUpload_ok_obj s b n content m d c) h
      simp [this]
  | resumeInit b n m d rc =>
    simp only [step] at h ⊢
    cases hp : parseConds rc with
    | none => simp
    | some c => simp [hp, isFailure] at h
  | resumeChunk idx r body =>
    simp only [step] at h ⊢
    cases hu : s.uploads.find? (·.id == idx) with
    | none => simp
    | some u =>
      simp only [hu] at h ⊢
      cases r with
      | none => simp
      | some r =>
        simp only at h ⊢
        generalize resumeStep u.data r body = rs at h ⊢
        obtain ⟨out, data'⟩ := rs
        cases out with
        | bad => simp
        | more k => simp [isFailure] at h
        | done d =>
          simp only at h ⊢
          have := resumeFinish_fail (s.setUploadData idx data') u idx d h
          simpa [Store.setUploadData] using this
  | getMeta b n => simp only [step]; split <;> simp
  | getMedia b n => simp only [step]; split <;> simp
  | patch b n rc body =>
    simp only [step] at h ⊢
    cases hp : parseConds rc with
    | none => simp
    | some c =>
      simp only [hp] at h ⊢
      cases ho : s.obj? b n with
      | none => simp
      | some o =>
        simp only [ho] at h ⊢
        cases hv : validateConds (some o) c with
        | ok =>
          simp only [hv] at h ⊢
          split at h
          · simp_all
          · simp [isFailure] at h
        | preconditionFailed => simp
        | notModified => simp
  | delete b n rc =>
    simp only [step] at h ⊢
    cases hp : parseConds rc with
    | none => simp
    | some c =>
      simp only [hp] at h ⊢
      split
      · rename_i hn
        simp only [hn, if_true] at h
        cases hv : validateConds none c with
        | ok =>
          simp only [hv] at h ⊢
          split at h
          · simp [isFailure] at h
          · rename_i hb; simp [hb]
        | preconditionFailed => simp
        | notModified => simp
      · rename_i hn
        simp only [hn] at h
        cases hv : validateConds (s.obj? b n) c with
        | ok =>
          simp only [hv] at h ⊢
          cases ho : s.obj? b n with
          | none => simp
          | some o => simp [ho, isFailure] at h
        | preconditionFailed => simp
        | notModified => simp
  | compose b dst rc srcs m =>
    simp only [step] at h ⊢
    cases hp : parseConds rc with
    | none => simp
    | some c =>
      simp only [hp] at h ⊢
      split
      · simp
      · rename_i hlen
        simp only [hlen, if_false] at h
        cases hd : composeData s b srcs with
        | error e => simp
        | ok dn =>
          obtain ⟨data, cnt⟩ := dn
          simp only [hd] at h ⊢
          cases hv : validateConds (s.obj? b dst) c with
          | ok =>
            simp only [hv] at h
            rw [obj?_add_self] at h
            simp [isFailure] at h
          | preconditionFailed => simp
          | notModified => simp
  | copy b1 n1 b2 n2 =>
    simp only [step] at h ⊢
    cases ho : s.obj? b1 n1 with
    | none => simp
    | some o =>
      simp only [ho] at h
      rw [obj?_add_self] at h
      simp [isFailure] at h
  | listAll b pfx delim max => simp only [step]; split <;> simp
  | listBad b => simp [step]
  | reopen => simp [step, isFailure] at h

theorem delete_gated (s : Store) (b n : Bytes) (r : RawConds) (c : Conds) (hn : n ≠ [])
    (hp : parseConds r = some c) :
    ((step s (.delete b n r)).2 = Resp.status .noContent ↔
      ((s.obj? b n).isSome ∧ validateConds (s.obj? b n) c = .ok)) := by
  have hne : n.isEmpty = false := by cases n <;> simp_all
  simp only [step, hp, hne]
  cases hv : validateConds (s.obj? b n) c with
  | ok =>
    cases ho : s.obj? b n with
    | none => simp [ho] at hv ⊢
    | some o => simp
  | preconditionFailed => simp [condFail]
  | notModified => simp [condFail]

end Emu.Proofs.Gcs

namespace Emu.Proofs.Gcs
open Emu Emu.Gcs

/-! ### versioning -/

/-- every stored generation is at most the logical clock -/
def GenBound (s : Store) : Prop := ∀ b n o, s.obj? b n = some o → o.gen ≤ s.clock

theorem Objs.get_name (os : Objs) (n : Bytes) (o : Obj) (h : os.get n = some o) : o.name = n := by
  induction os with
  | nil => cases h
  | cons x xs ih =>
    simp only [Objs.get] at h
    split at h
    · rename_i hx; cases h; simpa using hx
    · exact ih h

theorem obj?_replace_self (s : Store) (b : Bytes) (o : Obj) :
    (s.replace b o).obj? b o.name = some o := by
  simp only [Store.replace, Store.obj?, Store.bucket?, Store.setBucket, aget_aset_self]
  exact Objs.get_put_self _ o

theorem obj?_replace_other (s : Store) (b : Bytes) (o : Obj) (b' n' : Bytes)
    (h : b' ≠ b ∨ n' ≠ o.name) (hb : (s.bucket? b).isSome) : (s.replace b o).obj? b' n' = s.obj? b' n' := by
  simp only [Store.replace, Store.obj?, Store.bucket?, Store.setBucket]
  by_cases hbb : b' = b
  · subst hbb
    have hn : n' ≠ o.name := by cases h with | inl h => exact absurd rfl h | inr h => exact h
    simp only [aget_aset_self]
    rw [Objs.get_put_other _ _ _ hn]
    simp only [Store.bucket?] at hb
    cases hg : aget s.buckets b' with
    | none => simp [hg] at hb
    | some os => simp
  · rw [aget_aset_other _ _ _ _ hbb]

theorem obj?_some_bucket (s : Store) (b n : Bytes) (o : Obj) (h : s.obj? b n = some o) :
    (s.bucket? b).isSome := by
  unfold Store.obj? at h
  cases hb : s.bucket? b with
  | none => simp [hb] at h
  | some _ => rfl

theorem genBound_add (s : Store) (h : GenBound s) (b n c : Bytes) (m : Meta) : GenBound (s.add b n c m) := by
  intro b' n' o ho
  by_cases hh : b' = b ∧ n' = n
  · obtain ⟨rfl, rfl⟩ := hh
    rw [obj?_add_self] at ho
    cases ho
    simp [Store.add]
  · have : b' ≠ b ∨ n' ≠ n := by
      by_cases hb : b' = b
      · right; intro hn; exact hh ⟨hb, hn⟩
      · left; exact hb
    rw [obj?_add_other _ _ _ _ _ _ _ this] at ho
    have := h b' n' o ho
    simp only [Store.add]
    omega

theorem genBound_of_buckets (s t : Store) (h : GenBound s) (hb : t.buckets = s.buckets) (hc : s.clock ≤ t.clock) :
    GenBound t := by
  intro b n o ho
  rw [obj?_congr t s hb] at ho
  exact Nat.le_trans (h b n o ho) hc

end Emu.Proofs.Gcs

namespace Emu.Proofs.Gcs
open Emu Emu.Gcs

/-- The only ways a request can change the object store. -/
inductive Evolves (s : Store) : Store → Prop
  | same (t : Store) : t.buckets = s.buckets → t.clock = s.clock → Evolves s t
  | add (t : Store) (b n c : Bytes) (m : Meta) :
      t.buckets = (s.add b n c m).buckets → t.clock = s.clock + 1 → Evolves s t
  | replace (t : Store) (b : Bytes) (o o' : Obj) : s.obj? b o.name = some o → o'.name = o.name →
      o'.gen = o.gen → o'.content = o.content → o'.metagen = o.metagen + 1 → o'.meta.md5 = o.meta.md5 →
      t.buckets = (s.replace b o').buckets → t.clock = s.clock → Evolves s t
  | delObj (t : Store) (b n : Bytes) (os : Objs) : s.bucket? b = some os →
      t.buckets = (s.setBucket b (os.delete n)).buckets → t.clock = s.clock → Evolves s t
  | delBucket (t : Store) (b : Bytes) : t.buckets = adel s.buckets b → t.clock = s.clock → Evolves s t
  | mkBucket (t : Store) (b : Bytes) : s.bucket? b = none → t.buckets = (s.setBucket b []).buckets →
      t.clock = s.clock → Evolves s t

theorem finishUpload_evolves (s : Store) (b n content : Bytes) (m : Meta) (d : Option (Bool × Bool)) (c : Conds) :
    Evolves s (finishUpload s b n content m d c).1 := by
  unfold finishUpload
  split
  · exact .same _ rfl rfl
  · exact .same _ rfl rfl
  · split
    · exact .add _ b n content m rfl (by simp [Store.add])
    · exact .same _ rfl rfl

theorem evolves_congr {s t t' : Store} (h : Evolves s t) (hb : t'.buckets = t.buckets) (hc : t'.clock = t.clock) :
    Evolves s t' := by
  cases h with
  | same h1 h2 => exact .same _ (hb.trans h1) (hc.trans h2)
  | add b n c m h1 h2 => exact .add _ b n c m (hb.trans h1) (hc.trans h2)
  | replace b o o' a1 a2 a3 a4 a5 a6 h1 h2 => exact .replace _ b o o' a1 a2 a3 a4 a5 a6 (hb.trans h1) (hc.trans h2)
  | delObj b n os a1 h1 h2 => exact .delObj _ b n os a1 (hb.trans h1) (hc.trans h2)
  | delBucket b h1 h2 => exact .delBucket _ b (hb.trans h1) (hc.trans h2)
  | mkBucket b a1 h1 h2 => exact .mkBucket _ b a1 (hb.trans h1) (hc.trans h2)

/-- `Evolves` only looks at buckets and clock of the start state as well. -/
theorem evolves_from_congr {s s' t : Store} (h : Evolves s t) (hb : s'.buckets = s.buckets) (hc : s'.clock = s.clock) :
    Evolves s' t := by
  have ho : ∀ b n, s'.obj? b n = s.obj? b n := fun b n => obj?_congr _ _ hb b n
  have hbk : ∀ b, s'.bucket? b = s.bucket? b := fun b => by simp [Store.bucket?, hb]
  cases h with
  | same h1 h2 => exact .same _ (h1.trans hb.symm) (h2.trans hc.symm)
  | add b n c m h1 h2 =>
    refine .add _ b n c m ?_ (by omega)
    rw [h1]; simp [Store.add, Store.setBucket, Store.bucket?, hb, hc]
  | replace b o o' a1 a2 a3 a4 a5 a6 h1 h2 =>
    refine .replace _ b o o' (by rw [ho]; exact a1) a2 a3 a4 a5 a6 ?_ (by omega)
    rw [h1]; simp [Store.replace, Store.setBucket, Store.bucket?, hb]
  | delObj b n os a1 h1 h2 =>
    refine .delObj _ b n os (by rw [hbk]; exact a1) ?_ (by omega)
    rw [h1]; simp [Store.setBucket, hb]
  | delBucket b h1 h2 => exact .delBucket _ b (by rw [h1, hb]) (by omega)
  | mkBucket b a1 h1 h2 =>
    refine .mkBucket _ b (by rw [hbk]; exact a1) ?_ (by omega)
    rw [h1]; simp [Store.setBucket, hb]

theorem finishResp_evolves (s : Store) (b n : Bytes) (res : Store × Status) (c : Conds)
    (h : res.2 = .ok → Evolves s res.1) : Evolves s (finishResp s b n res c).1 := by
  obtain ⟨s1, st⟩ := res
  cases st <;> simp only [finishResp]
  · have := h rfl
    split <;> exact this
  all_goals exact .same _ rfl rfl

theorem resumeFinish_evolves (s1 : Store) (u : Upload) (idx : Nat) (d : Bytes) :
    Evolves s1 (resumeFinish s1 u idx d).1 := by
  unfold resumeFinish
  simp only
  generalize hs2 : (if md5Passes (effectiveDeclared u d) = true then s1.pin idx d else s1) = s2
  have hb : s2.buckets = s1.buckets ∧ s2.clock = s1.clock := by
    subst hs2; split <;> simp [Store.pin]
  have hev := finishUpload_evolves s2 u.bucket u.name d u.meta (effectiveDeclared u d) u.conds
  generalize finishUpload s2 u.bucket u.name d u.meta (effectiveDeclared u d) u.conds = fu at hev ⊢
  apply evolves_from_congr (s := s2) _ hb.1.symm hb.2.symm
  by_cases hok : fu.2 = .ok
  · simp only [hok, if_true]
    apply finishResp_evolves
    intro _
    exact evolves_congr hev (by simp [Store.dropUpload]) (by simp [Store.dropUpload])
  · simp only [hok, if_false]
    apply finishResp_evolves
    intro e; exact absurd e hok

theorem step_evolves (s : Store) (op : Op) : Evolves s (step s op).1 := by
  cases op with
  | mkBucket b =>
    simp only [step]
    split
    · exact .same _ rfl rfl
    · rename_i h
      refine .mkBucket _ b ?_ rfl rfl
      cases hb : s.bucket? b with
      | none => rfl
      | some _ => simp [hb] at h
  | getBucket b => simp only [step]; split <;> exact .same _ rfl rfl
  | upload b n content m d rc =>
    simp only [step]
    cases hp : parseConds rc with
    | none => exact .same _ rfl rfl
    | some c =>
      apply finishResp_evolves
      intro _; exact finishUpload_evolves s b n content m d c
  | resumeInit b n m d rc =>
    simp only [step]
    cases hp : parseConds rc with
    | none => exact .same _ rfl rfl
    | some c => exact .same _ rfl rfl
  | resumeChunk idx r body =>
    simp only [step]
    cases hu : s.uploads.find? (·.id == idx) with
    | none => exact .same _ rfl rfl
    | some u =>
      cases r with
      | none => exact .same _ rfl rfl
      | some r =>
        simp only
        generalize resumeStep u.data r body = rs
        obtain ⟨out, data'⟩ := rs
        cases out with
        | bad => exact .same _ rfl rfl
        | more k => exact .same _ (by simp [Store.setUploadData]) (by simp [Store.setUploadData])
        | done d =>
          simp only
          apply evolves_from_congr (resumeFinish_evolves (s.setUploadData idx data') u idx d)
          · simp [Store.setUploadData]
          · simp [Store.setUploadData]
  | getMeta b n => simp only [step]; split <;> exact .same _ rfl rfl
  | getMedia b n => simp only [step]; split <;> exact .same _ rfl rfl
  | patch b n rc body =>
    simp only [step]
    cases hp : parseConds rc with
    | none => exact .same _ rfl rfl
    | some c =>
      cases ho : s.obj? b n with
      | none => exact .same _ rfl rfl
      | some o =>
        simp only
        cases hv : validateConds (some o) c with
        | ok =>
          simp only
          split
          · exact .same _ rfl rfl
          · have hname : o.name = n := by
              unfold Store.obj? at ho
              cases hb : s.bucket? b with
              | none => simp [hb] at ho
              | some os => simp [hb] at ho; exact Objs.get_name os n o ho
            exact .replace _ b o { o with metagen := o.metagen + 1, «meta» := applyPatch o.meta body }
              (by rw [hname]; exact ho) rfl rfl rfl rfl (by simp [applyPatch]) rfl rfl
        | preconditionFailed => exact .same _ rfl rfl
        | notModified => exact .same _ rfl rfl
  | delete b n rc =>
    simp only [step]
    cases hp : parseConds rc with
    | none => exact .same _ rfl rfl
    | some c =>
      simp only
      split
      · cases hv : validateConds none c with
        | ok =>
          simp only
          split
          · exact .delBucket _ b rfl rfl
          · exact .same _ rfl rfl
        | preconditionFailed => exact .same _ rfl rfl
        | notModified => exact .same _ rfl rfl
      · cases hv : validateConds (s.obj? b n) c with
        | ok =>
          simp only
          cases ho : s.obj? b n with
          | none => exact .same _ rfl rfl
          | some o =>
            simp only
            have hb := obj?_some_bucket s b n o ho
            cases hbk : s.bucket? b with
            | none => simp [hbk] at hb
            | some os => exact .delObj _ b n os hbk (by simp) rfl
        | preconditionFailed => exact .same _ rfl rfl
        | notModified => exact .same _ rfl rfl
  | compose b dst rc srcs m =>
    simp only [step]
    cases hp : parseConds rc with
    | none => exact .same _ rfl rfl
    | some c =>
      simp only
      split
      · exact .same _ rfl rfl
      · cases hd : composeData s b srcs with
        | error e => exact .same _ rfl rfl
        | ok dn =>
          obtain ⟨data, cnt⟩ := dn
          simp only
          cases hv : validateConds (s.obj? b dst) c with
          | ok =>
            simp only
            rw [obj?_add_self]
            exact .add _ b dst data _ rfl (by simp [Store.add])
          | preconditionFailed => exact .same _ rfl rfl
          | notModified => exact .same _ rfl rfl
  | copy b1 n1 b2 n2 =>
    simp only [step]
    cases ho : s.obj? b1 n1 with
    | none => exact .same _ rfl rfl
    | some o =>
      simp only
      rw [obj?_add_self]
      exact .add _ b2 n2 o.content o.meta rfl (by simp [Store.add])
  | listAll b pfx delim max => simp only [step]; split <;> exact .same _ rfl rfl
  | listBad b => exact .same _ rfl rfl
  | reopen => exact .same _ rfl rfl

end Emu.Proofs.Gcs

namespace Emu.Proofs.Gcs
open Emu Emu.Gcs

theorem evolves_clock_mono {s t : Store} (h : Evolves s t) : s.clock ≤ t.clock := by
  cases h <;> omega

theorem Objs.get_delete_sub (os : Objs) (n k : Bytes) (o : Obj) (h : (os.delete n).get k = some o) :
    os.get k = some o := by
  by_cases hk : k = n
  · subst hk; rw [Objs.get_delete_self] at h; cases h
  · rwa [Objs.get_delete_other _ _ _ hk] at h

theorem evolves_genBound {s t : Store} (h : Evolves s t) (hs : GenBound s) : GenBound t := by
  cases h with
  | same h1 h2 => exact genBound_of_buckets s t hs h1 (by omega)
  | add b n c m h1 h2 =>
    exact genBound_of_buckets (s.add b n c m) t (genBound_add s hs b n c m) h1 (by simp [Store.add]; omega)
  | replace b o o' a1 a2 a3 a4 a5 a6 h1 h2 =>
    apply genBound_of_buckets (s.replace b o') t _ h1 (by simp [Store.replace, Store.setBucket]; omega)
    intro b' n' x hx
    by_cases hh : b' = b ∧ n' = o'.name
    · obtain ⟨rfl, rfl⟩ := hh
      rw [obj?_replace_self] at hx
      cases hx
      have := hs _ _ _ a1
      simp [Store.replace, Store.setBucket]; omega
    · have hne : b' ≠ b ∨ n' ≠ o'.name := by
        by_cases hb : b' = b
        · right; intro hn; exact hh ⟨hb, hn⟩
        · left; exact hb
      rw [obj?_replace_other _ _ _ _ _ hne (obj?_some_bucket _ _ _ _ a1)] at hx
      have := hs _ _ _ hx
      simpa [Store.replace, Store.setBucket] using this
  | delObj b n os a1 h1 h2 =>
    apply genBound_of_buckets (s.setBucket b (os.delete n)) t _ h1 (by simp [Store.setBucket]; omega)
    intro b' n' x hx
    simp only [Store.obj?, Store.bucket?, Store.setBucket] at hx
    by_cases hb : b' = b
    · subst hb
      simp only [aget_aset_self] at hx
      have := Objs.get_delete_sub _ _ _ _ hx
      have h' : s.obj? b' n' = some x := by simp [Store.obj?, a1, this]
      exact hs _ _ _ h'
    · rw [aget_aset_other _ _ _ _ hb] at hx
      exact hs b' n' x (by simpa [Store.obj?, Store.bucket?] using hx)
  | delBucket b h1 h2 =>
    intro b' n' x hx
    simp only [Store.obj?, Store.bucket?, h1] at hx
    by_cases hb : b' = b
    · subst hb; simp at hx
    · rw [aget_adel_other _ _ _ hb] at hx
      have := hs b' n' x (by simpa [Store.obj?, Store.bucket?] using hx)
      omega
  | mkBucket b a1 h1 h2 =>
    intro b' n' x hx
    simp only [Store.obj?, Store.bucket?, h1, Store.setBucket] at hx
    by_cases hb : b' = b
    · subst hb; simp [Objs.get] at hx
    · rw [aget_aset_other _ _ _ _ hb] at hx
      have := hs b' n' x (by simpa [Store.obj?, Store.bucket?] using hx)
      omega

/-- the states a program passes through, the start state first -/
def trace (s : Store) : List Op → List Store
  | [] => [s]
  | op :: ops => s :: trace (step s op).1 ops

def final (s : Store) : List Op → Store
  | [] => s
  | op :: ops => final (step s op).1 ops

theorem genBound_trace (s : Store) (ops : List Op) (h : GenBound s) : ∀ t ∈ trace s ops, GenBound t := by
  induction ops generalizing s with
  | nil => simp [trace]; exact h
  | cons op ops ih =>
    intro t ht
    simp only [trace, List.mem_cons] at ht
    cases ht with
    | inl e => subst e; exact h
    | inr h' => exact ih _ (evolves_genBound (step_evolves s op) h) t h'

theorem clock_le_final (s : Store) (ops : List Op) : ∀ t ∈ trace s ops, t.clock ≤ (final s ops).clock := by
  induction ops generalizing s with
  | nil => simp [trace, final]
  | cons op ops ih =>
    intro t ht
    simp only [trace, List.mem_cons] at ht
    simp only [final]
    have hlast : (step s op).1.clock ≤ (final (step s op).1 ops).clock :=
      ih _ _ (by cases ops <;> simp [trace])
    cases ht with
    | inl e => subst e; exact Nat.le_trans (evolves_clock_mono (step_evolves _ op)) hlast
    | inr h' => exact ih _ t h'

end Emu.Proofs.Gcs
