/-
  Row-level lemmas of the Bigtable Model: cells stay strictly descending by timestamp,
  membership laws of `appendOrReplaceCell`, lookup-after-update laws of `Row.setCells`.
-/
import Emu.Bt.Mutate

namespace Emu.Proofs.BtRow
open Emu Emu.Bt

/-- one cell per timestamp, newest first -/
def StrictDesc (cs : List Cell) : Prop := cs.Pairwise (fun a b => a.ts > b.ts)

def geTs (a b : Cell) : Bool := decide (a.ts ≥ b.ts)

theorem geTs_total (a b : Cell) : geTs a b = true ∨ geTs b a = true := by
  simp only [geTs, decide_eq_true_eq]; omega

theorem geTs_trans (a b c : Cell) (h1 : geTs a b = true) (h2 : geTs b c = true) : geTs a c = true := by
  simp only [geTs, decide_eq_true_eq] at *; omega

theorem strictDesc_sort_id (cs : List Cell) (h : StrictDesc cs) : sortBy geTs cs = cs := by
  apply sortBy_of_strict
  apply List.Pairwise.imp _ h
  intro a b hab
  simp only [geTs, decide_eq_false_iff_not]; omega

theorem strictDesc_of_sorted_distinct (l : List Cell)
    (hs : l.Pairwise (fun a b => geTs a b = true)) (hd : l.Pairwise (fun a b => a.ts ≠ b.ts)) :
    StrictDesc l := by
  have := hs.and hd
  apply List.Pairwise.imp _ this
  intro a b ⟨h1, h2⟩
  simp only [geTs, decide_eq_true_eq] at h1; omega

theorem strictDesc_distinct (l : List Cell) (h : StrictDesc l) : l.Pairwise (fun a b => a.ts ≠ b.ts) :=
  List.Pairwise.imp (fun hab => by omega) h

theorem modifyFirst_none {α} (p : α → Bool) (g : α → α) (l : List α) (h : l.any p = false) :
    modifyFirst p g l = l := by
  induction l with
  | nil => rfl
  | cons x xs ih =>
    simp only [List.any_cons, Bool.or_eq_false_iff] at h
    simp [modifyFirst, h.1, ih h.2]

/-- replacing the cell with timestamp `c.ts` by `c` keeps the list strictly descending -/
theorem strictDesc_replace (cs : List Cell) (c : Cell) (h : StrictDesc cs) :
    StrictDesc (modifyFirst (·.ts == c.ts) (fun _ => c) cs) := by
  induction cs with
  | nil => exact h
  | cons x xs ih =>
    unfold StrictDesc at h ih ⊢
    rw [List.pairwise_cons] at h
    simp only [modifyFirst]
    split
    · rename_i hx
      have e : x.ts = c.ts := by simpa using hx
      rw [List.pairwise_cons]
      exact ⟨fun y hy => by have := h.1 y hy; omega, h.2⟩
    · rename_i hx
      rw [List.pairwise_cons]
      refine ⟨?_, ih h.2⟩
      intro y hy
      -- y is either c (and some element of xs had c.ts) or an element of xs
      have : y ∈ xs ∨ (y = c ∧ ∃ z ∈ xs, z.ts = c.ts) := by
        clear ih h hx
        induction xs with
        | nil => simp [modifyFirst] at hy
        | cons z zs ihz =>
          simp only [modifyFirst] at hy
          split at hy
          · rename_i hz
            simp only [List.mem_cons] at hy
            cases hy with
            | inl e => right; exact ⟨e, z, by simp, by simpa using hz⟩
            | inr h' => left; simp [h']
          · simp only [List.mem_cons] at hy
            cases hy with
            | inl e => left; simp [e]
            | inr h' =>
              cases ihz h' with
              | inl h'' => left; simp [h'']
              | inr h'' =>
                right; obtain ⟨e, w, hw, hwt⟩ := h''
                exact ⟨e, w, by simp [hw], hwt⟩
      cases this with
      | inl hm => exact h.1 y hm
      | inr hc =>
        obtain ⟨e, z, hz, hzt⟩ := hc
        have := h.1 z hz
        rw [e]; omega

theorem mem_replace (cs : List Cell) (c : Cell) (h : StrictDesc cs) (hany : cs.any (·.ts == c.ts) = true) (x : Cell) :
    x ∈ modifyFirst (·.ts == c.ts) (fun _ => c) cs ↔ x = c ∨ (x ∈ cs ∧ x.ts ≠ c.ts) := by
  induction cs with
  | nil => simp at hany
  | cons y ys ih =>
    unfold StrictDesc at h
    rw [List.pairwise_cons] at h
    simp only [modifyFirst]
    split
    · rename_i hy
      have e : y.ts = c.ts := by simpa using hy
      simp only [List.mem_cons]
      constructor
      · intro hx
        cases hx with
        | inl h' => left; exact h'
        | inr h' => right; exact ⟨Or.inr h', by have := h.1 x h'; omega⟩
      · intro hx
        cases hx with
        | inl h' => left; exact h'
        | inr h' =>
          obtain ⟨hm, hne⟩ := h'
          cases hm with
          | inl e' => rw [e'] at hne; exact absurd e hne
          | inr hm => right; exact hm
    · rename_i hy
      have hany' : ys.any (·.ts == c.ts) = true := by
        simp only [List.any_cons, Bool.or_eq_true] at hany
        cases hany with
        | inl h' => exact absurd h' hy
        | inr h' => exact h'
      have hne : y.ts ≠ c.ts := by simpa using hy
      simp only [List.mem_cons, ih h.2 hany']
      constructor
      · intro hx
        cases hx with
        | inl e => right; rw [e]; exact ⟨Or.inl rfl, hne⟩
        | inr h' =>
          cases h' with
          | inl e => left; exact e
          | inr h'' => right; exact ⟨Or.inr h''.1, h''.2⟩
      · intro hx
        cases hx with
        | inl e => right; left; exact e
        | inr h' =>
          obtain ⟨hm, hn⟩ := h'
          cases hm with
          | inl e => left; exact e
          | inr hm => right; right; exact ⟨hm, hn⟩

/-- `appendOrReplaceCell` keeps one cell per timestamp, newest first … -/
theorem appendOrReplace_desc (cs : List Cell) (c : Cell) (h : StrictDesc cs) :
    StrictDesc (appendOrReplaceCell cs c) := by
  unfold appendOrReplaceCell
  split
  · have := strictDesc_replace cs c h
    show StrictDesc (sortBy geTs _)
    rw [strictDesc_sort_id _ this]; exact this
  · rename_i hany
    show StrictDesc (sortBy geTs _)
    apply strictDesc_of_sorted_distinct
    · exact pairwise_sortBy geTs geTs_total geTs_trans _
    · have hperm := perm_sortBy geTs (cs ++ [c])
      rw [List.Perm.pairwise_iff (fun {a b} (hab : a.ts ≠ b.ts) => hab.symm) hperm]
      rw [List.pairwise_append]
      refine ⟨strictDesc_distinct cs h, by simp, ?_⟩
      intro a ha b hb
      simp only [List.mem_singleton] at hb
      subst hb
      simp only [Bool.not_eq_true, List.any_eq_false, beq_iff_eq] at hany
      exact hany a ha

/-- … and holds exactly: the new cell, plus the old cells with a different timestamp. -/
theorem mem_appendOrReplace (cs : List Cell) (c : Cell) (h : StrictDesc cs) (x : Cell) :
    x ∈ appendOrReplaceCell cs c ↔ x = c ∨ (x ∈ cs ∧ x.ts ≠ c.ts) := by
  unfold appendOrReplaceCell
  split
  · rename_i hany
    rw [mem_sortBy, mem_replace cs c h hany]
  · rename_i hany
    simp only [Bool.not_eq_true, List.any_eq_false, beq_iff_eq] at hany
    rw [mem_sortBy, List.mem_append, List.mem_singleton]
    constructor
    · intro hx
      cases hx with
      | inl hm => right; exact ⟨hm, hany x hm⟩
      | inr e => left; exact e
    · intro hx
      cases hx with
      | inl e => right; exact e
      | inr hm => left; exact hm.1

theorem strictDesc_filter (cs : List Cell) (p : Cell → Bool) (h : StrictDesc cs) : StrictDesc (cs.filter p) :=
  List.Pairwise.filter p h

end Emu.Proofs.BtRow

namespace Emu.Proofs.BtRow
open Emu Emu.Bt

/-! ### lookup after `setCells` -/

theorem find?_modifyFirst_self {α} (p : α → Bool) (g : α → α) (hg : ∀ x, p (g x) = p x) (l : List α) :
    (modifyFirst p g l).find? p = (l.find? p).map g := by
  induction l with
  | nil => rfl
  | cons x xs ih =>
    simp only [modifyFirst]
    split
    · rename_i hx; simp [List.find?_cons, hg, hx]
    · rename_i hx; simp [List.find?_cons, hx, ih]

theorem find?_modifyFirst_other {α} (p p' : α → Bool) (g : α → α) (hg : ∀ x, p' (g x) = p' x)
    (hdisj : ∀ x, p x = true → p' x = false) (l : List α) :
    (modifyFirst p g l).find? p' = l.find? p' := by
  induction l with
  | nil => rfl
  | cons x xs ih =>
    simp only [modifyFirst]
    split
    · rename_i hx
      have h1 := hdisj x hx
      simp [List.find?_cons, hg, h1]
    · simp only [List.find?_cons]
      split
      · rfl
      · exact ih

def Family.cellsOf (f : Family) (q : Bytes) : List Cell :=
  match f.getColumn q with
  | none => []
  | some c => c.cells

theorem row_cellsOf_eq (r : Row) (fam q : Bytes) :
    r.cellsOf fam q = match r.getFamily fam with | none => [] | some f => Family.cellsOf f q := by
  unfold Row.cellsOf Family.cellsOf
  cases r.getFamily fam <;> rfl

theorem find?_none_of_any_false {α} (p : α → Bool) (l : List α) (h : l.any p = false) : l.find? p = none := by
  simp only [List.any_eq_false] at h
  simp only [List.find?_eq_none]
  exact fun x hx => by simpa using h x hx

theorem find?_isSome_of_any {α} (p : α → Bool) (l : List α) (h : l.any p = true) : ∃ x, l.find? p = some x := by
  cases hf : l.find? p with
  | some x => exact ⟨x, rfl⟩
  | none =>
    simp only [List.find?_eq_none] at hf
    simp only [List.any_eq_true] at h
    obtain ⟨x, hx, hp⟩ := h
    exact absurd hp (hf x hx)

theorem Family.name_setCells (f : Family) (q : Bytes) (g : List Cell → List Cell) :
    (f.setCells q g).name = f.name := by
  unfold Family.setCells; split <;> rfl

theorem Family.cellsOf_setCells_self (f : Family) (q : Bytes) (g : List Cell → List Cell) :
    Family.cellsOf (f.setCells q g) q = g (Family.cellsOf f q) := by
  by_cases hany : f.cols.any (·.qual == q) = true
  · simp only [Family.setCells, hany, if_true, Family.cellsOf, Family.getColumn]
    rw [find?_modifyFirst_self (fun c : Column => c.qual == q)
      (fun c : Column => { c with cells := g c.cells }) (fun x => rfl)]
    obtain ⟨c, hc⟩ := find?_isSome_of_any _ _ hany
    simp [hc]
  · have hnone := find?_none_of_any_false (fun c : Column => c.qual == q) f.cols (by simpa using hany)
    simp only [Family.setCells, hany, Family.cellsOf, Family.getColumn]
    simp [List.find?_append, hnone]

theorem beq_false_of_ne {a b : Bytes} (h : a ≠ b) : (a == b) = false := by
  simp only [beq_eq_false_iff_ne, ne_eq]; exact h

theorem Family.cellsOf_setCells_other (f : Family) (q q' : Bytes) (g : List Cell → List Cell) (h : q' ≠ q) :
    Family.cellsOf (f.setCells q g) q' = Family.cellsOf f q' := by
  have hdisj : ∀ x : Column, (x.qual == q) = true → (x.qual == q') = false := by
    intro x hx
    have e : x.qual = q := by simpa using hx
    rw [e]; exact beq_false_of_ne (fun e' => h e'.symm)
  by_cases hany : f.cols.any (·.qual == q) = true
  · simp only [Family.setCells, hany, if_true, Family.cellsOf, Family.getColumn]
    rw [find?_modifyFirst_other (fun c : Column => c.qual == q) (fun c : Column => c.qual == q')
      (fun c : Column => { c with cells := g c.cells }) (fun x => rfl) hdisj]
  · have hq : (q == q') = false := beq_false_of_ne (fun e => h e.symm)
    simp only [Family.setCells, hany, Family.cellsOf, Family.getColumn, List.find?_append, List.find?_cons,
      hq, List.find?_nil, if_false, Bool.false_eq_true]
    cases List.find? (fun c : Column => c.qual == q') f.cols <;> rfl

theorem Row.cellsOf_setCells_self (r : Row) (fam q : Bytes) (g : List Cell → List Cell) :
    (r.setCells fam q g).cellsOf fam q = g (r.cellsOf fam q) := by
  rw [row_cellsOf_eq, row_cellsOf_eq]
  by_cases hany : r.fams.any (·.name == fam) = true
  · simp only [Row.setCells, hany, if_true, Row.getFamily]
    rw [find?_modifyFirst_self (fun f : Family => f.name == fam) (fun f : Family => f.setCells q g)
      (fun x => by simp [Family.name_setCells])]
    obtain ⟨f, hf⟩ := find?_isSome_of_any _ _ hany
    simp [hf, Family.cellsOf_setCells_self]
  · have hnone := find?_none_of_any_false (fun f : Family => f.name == fam) r.fams (by simpa using hany)
    have hn : ((Family.mk fam []).setCells q g).name = fam := Family.name_setCells _ _ _
    simp only [Row.setCells, hany, Row.getFamily, List.find?_append, hnone, List.find?_cons, hn,
      beq_self_eq_true, Option.none_or, Option.or_some, if_false, Bool.false_eq_true]
    simp only [Option.getD_none]
    rw [Family.cellsOf_setCells_self]
    simp [Family.cellsOf, Family.getColumn]

theorem Row.cellsOf_setCells_other (r : Row) (fam q fam' q' : Bytes) (g : List Cell → List Cell)
    (h : fam' ≠ fam ∨ q' ≠ q) : (r.setCells fam q g).cellsOf fam' q' = r.cellsOf fam' q' := by
  rw [row_cellsOf_eq, row_cellsOf_eq]
  by_cases hf : fam' = fam
  · subst hf
    have hq : q' ≠ q := by cases h with | inl h => exact absurd rfl h | inr h => exact h
    by_cases hany : r.fams.any (·.name == fam') = true
    · simp only [Row.setCells, hany, if_true, Row.getFamily]
      rw [find?_modifyFirst_self (fun f : Family => f.name == fam') (fun f : Family => f.setCells q g)
        (fun x => by simp [Family.name_setCells])]
      obtain ⟨f, hf⟩ := find?_isSome_of_any _ _ hany
      simp [hf, Family.cellsOf_setCells_other _ _ _ _ hq]
    · have hnone := find?_none_of_any_false (fun f : Family => f.name == fam') r.fams (by simpa using hany)
      have hn : ((Family.mk fam' []).setCells q g).name = fam' := Family.name_setCells _ _ _
      simp only [Row.setCells, hany, Row.getFamily, List.find?_append, hnone, List.find?_cons, hn,
        beq_self_eq_true, Option.none_or, Option.or_some, if_false, Bool.false_eq_true]
      simp only [Option.getD_none]
      rw [Family.cellsOf_setCells_other _ _ _ _ hq]
      simp [Family.cellsOf, Family.getColumn]
  · have hdisj : ∀ x : Family, (x.name == fam) = true → (x.name == fam') = false := by
      intro x hx
      have e : x.name = fam := by simpa using hx
      rw [e]; exact beq_false_of_ne (fun e' => hf e'.symm)
    by_cases hany : r.fams.any (·.name == fam) = true
    · simp only [Row.setCells, hany, if_true, Row.getFamily]
      rw [find?_modifyFirst_other (fun f : Family => f.name == fam) (fun f : Family => f.name == fam')
        (fun f : Family => f.setCells q g) (fun x => by simp [Family.name_setCells]) hdisj]
    · have hq : (fam == fam') = false := beq_false_of_ne (fun e => hf e.symm)
      have hn : ((Family.mk fam []).setCells q g).name = fam := Family.name_setCells _ _ _
      simp only [Row.setCells, hany, Row.getFamily, List.find?_append, List.find?_cons, hn, hq,
        List.find?_nil, if_false, Bool.false_eq_true]
      cases List.find? (fun f : Family => f.name == fam') r.fams <;> rfl

end Emu.Proofs.BtRow
