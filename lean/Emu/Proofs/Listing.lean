/-
  Bucket listing (`makeBucketListResults`): per-page invariants for every prefix/delimiter, and the
  complete pagination theorem without delimiter.
-/
import Emu.Gcs.Model
import Emu.Proofs.Drop

namespace Emu.Proofs.Listing
open Emu Emu.Gcs

def NamesSorted (names : List Bytes) : Prop := names.Pairwise (fun a b => a < b)

/-! ### facts about one callback invocation -/

theorem pageStep_stopped (pfx delim cursor skip : Bytes) (max : Nat) (p : Page) (n : Bytes) (h : p.stopped = true) :
    pageStep pfx delim cursor skip max p n = p := by simp [pageStep, h]

theorem foldl_stopped (pfx delim cursor skip : Bytes) (max : Nat) (p : Page) (l : List Bytes) (h : p.stopped = true) :
    l.foldl (pageStep pfx delim cursor skip max) p = p := by
  induction l with
  | nil => rfl
  | cons n ns ih => simp only [List.foldl_cons, pageStep_stopped _ _ _ _ _ _ _ h, ih]

/-- page invariant: the page never holds more than `max` entries, and `count` is their number -/
def PageOk (max : Nat) (p : Page) : Prop :=
  p.count = p.items.length + p.prefixes.length ∧ p.count ≤ max ∧ p.prefixes.Nodup

theorem pageStep_ok (pfx delim cursor skip : Bytes) (max : Nat) (p : Page) (n : Bytes) (h : PageOk max p) :
    PageOk max (pageStep pfx delim cursor skip max p n) := by
  unfold pageStep
  split; · exact h
  split; · exact h
  split; · exact h
  split; · exact h
  split; · exact h
  obtain ⟨h1, h2, h3⟩ := h
  split
  · rename_i cp _
    split
    · exact ⟨h1, h2, h3⟩
    · split
      · exact ⟨h1, h2, h3⟩
      · rename_i hnc hlt
        refine ⟨by simp [h1]; omega, by simp; omega, ?_⟩
        simp only
        rw [List.nodup_append]
        refine ⟨h3, by simp, ?_⟩
        intro a ha b hb
        simp only [List.mem_singleton] at hb
        subst hb
        intro e; subst e
        simp only [List.contains_iff_mem] at hnc
        exact hnc ha
  · split
    · exact ⟨h1, h2, h3⟩
    · refine ⟨by simp [h1]; omega, by simp; omega, h3⟩

theorem listPage_ok (names : List Bytes) (pfx delim cursor : Bytes) (max : Nat) :
    PageOk max (listPage names pfx delim cursor max) := by
  unfold listPage
  generalize (if Bytes.hasPrefix cursor pfx = true then (collapse pfx delim cursor).getD [] else []) = skip
  have h0 : PageOk max ({} : Page) := ⟨rfl, Nat.zero_le _, List.nodup_nil⟩
  generalize ({} : Page) = p at h0
  induction names generalizing p with
  | nil => exact h0
  | cons n ns ih => exact ih _ (pageStep_ok pfx delim cursor skip max p n h0)

/-- soundness invariant: every item is a stored name with the prefix, beyond the cursor, with no
    delimiter after the prefix; every reported prefix is the roll-up of such a stored name -/
def PageSound (names : List Bytes) (pfx delim cursor : Bytes) (p : Page) : Prop :=
  (∀ x ∈ p.items, x ∈ names ∧ Bytes.hasPrefix x pfx = true ∧ cursor < x ∧ collapse pfx delim x = none) ∧
  (∀ cp ∈ p.prefixes, ∃ x ∈ names, Bytes.hasPrefix x pfx = true ∧ cursor < x ∧ collapse pfx delim x = some cp)

theorem pageStep_sound (names : List Bytes) (pfx delim cursor skip : Bytes) (max : Nat) (p : Page) (n : Bytes)
    (hn : n ∈ names) (h : PageSound names pfx delim cursor p) :
    PageSound names pfx delim cursor (pageStep pfx delim cursor skip max p n) := by
  unfold pageStep
  split; · exact h
  split; · exact h
  split; · exact h
  rename_i hcur
  split; · exact h
  rename_i hpf
  split; · exact h
  have hgt : cursor < n := by
    have : ¬ n ≤ cursor := by simpa using hcur
    grind
  have hp : Bytes.hasPrefix n pfx = true := by simpa using hpf
  obtain ⟨h1, h2⟩ := h
  split
  · rename_i cp hcp
    split
    · exact ⟨h1, h2⟩
    · split
      · exact ⟨h1, h2⟩
      · refine ⟨h1, ?_⟩
        intro c hc
        simp only [List.mem_append, List.mem_singleton] at hc
        cases hc with
        | inl hc => exact h2 c hc
        | inr e => subst e; exact ⟨n, hn, hp, hgt, hcp⟩
  · rename_i hcp
    split
    · exact ⟨h1, h2⟩
    · refine ⟨?_, h2⟩
      intro x hx
      simp only [List.mem_append, List.mem_singleton] at hx
      cases hx with
      | inl hx => exact h1 x hx
      | inr e => subst e; exact ⟨hn, hp, hgt, hcp⟩

theorem listPage_sound (names : List Bytes) (pfx delim cursor : Bytes) (max : Nat) :
    PageSound names pfx delim cursor (listPage names pfx delim cursor max) := by
  unfold listPage
  generalize (if Bytes.hasPrefix cursor pfx = true then (collapse pfx delim cursor).getD [] else []) = skip
  have h0 : PageSound names pfx delim cursor ({} : Page) := ⟨by simp, by simp⟩
  generalize ({} : Page) = p at h0
  suffices h : ∀ (l : List Bytes), (∀ x ∈ l, x ∈ names) → ∀ p, PageSound names pfx delim cursor p →
      PageSound names pfx delim cursor (l.foldl (pageStep pfx delim cursor skip max) p) from
    h names (fun _ hx => hx) p h0
  intro l
  induction l with
  | nil => intro _ p hp; exact hp
  | cons n ns ih =>
    intro hl p hp
    exact ih (fun x hx => hl x (by simp [hx])) _ (pageStep_sound names pfx delim cursor skip max p n (hl n (by simp)) hp)

end Emu.Proofs.Listing

namespace Emu.Proofs.Listing
open Emu Emu.Gcs Emu.Proofs.Drop

/-! ### without delimiter: the whole pagination -/

theorem take_le (l : Bytes) (k : Nat) : l.take k ≤ l := by
  induction l generalizing k with
  | nil => simp
  | cons a t ih =>
    cases k with
    | zero => simp
    | succ k => simp only [List.take_succ_cons]; rw [List.cons_le_cons_iff]; right; exact ⟨rfl, ih k⟩

theorem hasPrefix_iff_take (n pfx : Bytes) : Bytes.hasPrefix n pfx = true ↔ n.take pfx.length = pfx := by
  unfold Bytes.hasPrefix
  rw [List.isPrefixOf_iff_prefix, List.prefix_iff_eq_take]
  exact eq_comm

/-- once a name is beyond the prefix block, no later name has the prefix -/
theorem gt_no_prefix (n n' pfx : Bytes) (h : greaterThanPrefix n pfx = true) (hle : n ≤ n') :
    Bytes.hasPrefix n' pfx = false := by
  unfold greaterThanPrefix at h
  have hnp : Bytes.hasPrefix n pfx = false := by
    cases hp : Bytes.hasPrefix n pfx with
    | false => rfl
    | true =>
      have ht := (hasPrefix_iff_take n pfx).mp hp
      split at h
      · rename_i hlen
        have := congrArg List.length ht
        simp at this; omega
      · simp only [decide_eq_true_eq] at h; rw [ht] at h; exact absurd h (List.lt_irrefl _)
  have hge : pfx ≤ n := by
    split at h
    · simp only [decide_eq_true_eq] at h; exact Std.le_of_lt h
    · simp only [decide_eq_true_eq] at h
      exact Std.le_trans (Std.le_of_lt h) (take_le n pfx.length)
  exact prefix_block pfx n n' hge hnp hle

def elig (cursor pfx n : Bytes) : Bool := decide (cursor < n) && Bytes.hasPrefix n pfx

/-- Fold of the callback over a sorted remainder, from any non-stopped page state (no delimiter):
    it appends the next eligible names up to the page size and sets `more` iff one is left over. -/
theorem fold_noDelim (pfx cursor : Bytes) (max : Nat) (names : List Bytes) (hs : NamesSorted names) (p : Page)
    (hns : p.stopped = false) (hm : p.more = false) (hc : p.count ≤ max) :
    let F := names.filter (elig cursor pfx)
    let res := names.foldl (pageStep pfx [] cursor [] max) p
    res.items = p.items ++ F.take (max - p.count) ∧
    res.more = decide (F.length > max - p.count) ∧
    res.prefixes = p.prefixes ∧
    res.last = ((F.take (max - p.count)).getLast?).getD p.last := by
  induction names generalizing p with
  | nil => simp [hm]
  | cons n ns ih =>
    unfold NamesSorted at hs ih
    rw [List.pairwise_cons] at hs
    simp only [List.foldl_cons]
    have hcol : collapse pfx [] n = none := by simp [collapse]
    -- case analysis on the callback
    by_cases hgt : greaterThanPrefix n pfx = true
    · -- beyond the prefix: stop; nothing eligible remains
      have hstep : pageStep pfx [] cursor [] max p n = { p with stopped := true } := by
        simp [pageStep, hns, hgt]
      rw [hstep, foldl_stopped _ _ _ _ _ _ _ rfl]
      have hnone : (n :: ns).filter (elig cursor pfx) = [] := by
        rw [List.filter_eq_nil_iff]
        intro x hx
        have hle : n ≤ x := by
          simp only [List.mem_cons] at hx
          cases hx with
          | inl e => rw [e]; exact Std.le_refl _
          | inr hx => exact Std.le_of_lt (hs.1 x hx)
        simp [elig, gt_no_prefix n x pfx hgt hle]
      simp [hnone, hm]
    · by_cases hel : elig cursor pfx n = true
      · -- eligible name
        have hcur : ¬ n ≤ cursor := by
          simp only [elig, Bool.and_eq_true, decide_eq_true_eq] at hel; grind
        have hpf : Bytes.hasPrefix n pfx = true := by simp only [elig, Bool.and_eq_true] at hel; exact hel.2
        by_cases hfull : p.count ≥ max
        · have hstep : pageStep pfx [] cursor [] max p n = { p with more := true, stopped := true } := by
            simp [pageStep, hns, hgt, hcur, hpf, hcol, hfull]
          rw [hstep, foldl_stopped _ _ _ _ _ _ _ rfl]
          have h0 : max - p.count = 0 := by omega
          simp [List.filter_cons, hel, h0]
        · have hstep : pageStep pfx [] cursor [] max p n =
              { p with count := p.count + 1, items := p.items ++ [n], last := n } := by
            simp [pageStep, hns, hgt, hcur, hpf, hcol, hfull]
          rw [hstep]
          have := ih hs.2 { p with count := p.count + 1, items := p.items ++ [n], last := n } hns hm (by simp; omega)
          simp only at this
          obtain ⟨i1, i2, i3, i4⟩ := this
          have hk : max - p.count = (max - (p.count + 1)) + 1 := by omega
          refine ⟨?_, ?_, i3, ?_⟩
          · rw [i1, List.filter_cons, hel]; simp only [if_true]; rw [hk, List.take_succ_cons]; simp
          · rw [i2, List.filter_cons, hel]; simp only [if_true, List.length_cons]
            rw [Bool.eq_iff_iff]; simp only [decide_eq_true_eq]; omega
          · rw [i4, List.filter_cons, hel]; simp only [if_true]; rw [hk, List.take_succ_cons]
            cases hF : List.take (max - (p.count + 1)) (List.filter (elig cursor pfx) ns) with
            | nil => simp
            | cons y ys =>
              have hne : (y :: ys).getLast? = some ((y :: ys).getLast (by simp)) := List.getLast?_eq_some_getLast (by simp)
              simp [hne]
      · -- not eligible: skipped
        have hstep : pageStep pfx [] cursor [] max p n = p := by
          simp only [elig, Bool.and_eq_true, decide_eq_true_eq, not_and] at hel
          unfold pageStep
          simp only [hns, Bool.false_eq_true, if_false, hgt]
          by_cases hc1 : n ≤ cursor
          · simp [hc1]
          · have : cursor < n := by grind
            have hp := hel this
            simp [hc1, hp]
        rw [hstep]
        have := ih hs.2 p hns hm hc
        simp only [List.filter_cons, hel] at this ⊢
        exact this

/-- One page without delimiter = the next `max` eligible names; a token is issued iff more remain,
    and it is the last name of the page. -/
theorem listPage_noDelim (names : List Bytes) (hs : NamesSorted names) (pfx cursor : Bytes) (max : Nat) :
    let F := names.filter (elig cursor pfx)
    let p := listPage names pfx [] cursor max
    p.items = F.take max ∧ p.prefixes = [] ∧ p.more = decide (F.length > max) ∧
    p.last = ((F.take max).getLast?).getD [] := by
  unfold listPage
  have hskip : (if Bytes.hasPrefix cursor pfx = true then (collapse pfx [] cursor).getD [] else []) = [] := by
    simp [collapse]
  rw [hskip]
  have := fold_noDelim pfx cursor max names hs {} rfl rfl (Nat.zero_le _)
  simp only [Nat.sub_zero, List.nil_append] at this
  exact ⟨this.1, this.2.2.1, this.2.1, this.2.2.2⟩

end Emu.Proofs.Listing

namespace Emu.Proofs.Listing
open Emu Emu.Gcs

theorem filter_gt_getElem (l : List Bytes) (hs : NamesSorted l) (k : Nat) (hk : k < l.length) :
    l.filter (fun n => decide (l[k] < n)) = l.drop (k + 1) := by
  induction l generalizing k with
  | nil => simp at hk
  | cons a t ih =>
    unfold NamesSorted at hs ih
    rw [List.pairwise_cons] at hs
    cases k with
    | zero =>
      simp only [List.getElem_cons_zero, List.filter_cons, List.lt_irrefl, decide_false, Bool.false_eq_true, if_false,
        Nat.zero_add, List.drop_succ_cons, List.drop_zero]
      exact List.filter_eq_self.mpr (fun x hx => by simpa using hs.1 x hx)
    | succ k =>
      simp only [List.getElem_cons_succ, List.filter_cons, List.drop_succ_cons]
      have hk' : k < t.length := by simpa using hk
      have hlt : a < t[k] := hs.1 _ (List.getElem_mem hk')
      have : ¬ t[k] < a := by grind
      simp only [this, decide_false, Bool.false_eq_true, if_false]
      exact ih hs.2 k hk'

/-- eligibility with a cursor that is itself an eligible name: the names after it -/
theorem filter_elig_next (names : List Bytes) (hs : NamesSorted names) (pfx cursor : Bytes) (k : Nat)
    (hk : k < (names.filter (elig cursor pfx)).length) :
    names.filter (elig ((names.filter (elig cursor pfx))[k]) pfx) = (names.filter (elig cursor pfx)).drop (k + 1) := by
  have hFs : NamesSorted (names.filter (elig cursor pfx)) := List.Pairwise.filter _ hs
  rw [← filter_gt_getElem _ hFs k hk, List.filter_filter]
  apply List.filter_congr
  intro n _
  have hc : elig cursor pfx ((names.filter (elig cursor pfx))[k]) = true :=
    (List.mem_filter.mp (List.getElem_mem hk)).2
  simp only [elig, Bool.and_eq_true, decide_eq_true_eq] at hc ⊢
  rw [Bool.eq_iff_iff]
  simp only [Bool.and_eq_true, decide_eq_true_eq]
  constructor
  · intro ⟨h1, h2⟩; exact ⟨h1, Std.lt_trans hc.1 h1, h2⟩
  · intro ⟨h1, _, h3⟩; exact ⟨h1, h3⟩

/-- **Pagination without delimiter**: following the tokens from any cursor yields, page by page,
    consecutive blocks of at most `max` names, whose concatenation is exactly the stored names
    beyond the cursor that start with the prefix, in ascending order, each once; the last page
    carries no token. -/
theorem listAll_noDelim (names : List Bytes) (hs : NamesSorted names) (pfx : Bytes) (max : Nat) (hmax : max ≥ 1)
    (fuel : Nat) (cursor : Bytes) (hfuel : fuel ≥ (names.filter (elig cursor pfx)).length + 1) :
    let pages := listAll names pfx [] max fuel cursor
    (pages.flatMap (·.items)) = names.filter (elig cursor pfx) ∧
    (∀ p ∈ pages, p.items.length ≤ max ∧ p.prefixes = []) ∧
    (pages.getLast?.map (·.more)) = some false := by
  induction fuel generalizing cursor with
  | zero => omega
  | succ fuel ih =>
    simp only [listAll]
    obtain ⟨hi, hp, hm, hl⟩ := listPage_noDelim names hs pfx cursor max
    generalize hF : names.filter (elig cursor pfx) = F at hi hp hm hl hfuel
    by_cases hmore : F.length > max
    · have hmt : (listPage names pfx [] cursor max).more = true := by rw [hm]; simpa using hmore
      simp only [hmt, if_true]
      -- next cursor = F[max-1]
      have hk : max - 1 < F.length := by omega
      have hlast : (listPage names pfx [] cursor max).last = F[max - 1] := by
        rw [hl]
        have hne : F.take max ≠ [] := by
          intro e
          have h1 := congrArg List.length e
          rw [List.length_take, List.length_nil] at h1
          omega
        rw [List.getLast?_eq_some_getLast hne]
        simp only [Option.getD_some]
        rw [List.getLast_eq_getElem]
        simp only [List.length_take, List.getElem_take]
        congr 1; omega
      have hnext : names.filter (elig (listPage names pfx [] cursor max).last pfx) = F.drop max := by
        rw [hlast]
        have := filter_elig_next names hs pfx cursor (max - 1) (by rw [hF]; exact hk)
        simp only [hF] at this
        rw [this]; congr 1; omega
      have hf' : fuel ≥ (F.drop max).length + 1 := by
        have h1 : (F.drop max).length = F.length - max := List.length_drop
        rw [h1]; omega
      have := ih (listPage names pfx [] cursor max).last (by rw [hnext]; exact hf')
      simp only at this
      obtain ⟨a1, a2, a3⟩ := this
      refine ⟨?_, ?_, ?_⟩
      · simp only [List.flatMap_cons, a1, hi, hnext, List.take_append_drop]
      · intro p hp'
        simp only [List.mem_cons] at hp'
        cases hp' with
        | inl e => subst e; exact ⟨by rw [hi]; simp; omega, hp⟩
        | inr h' => exact a2 p h'
      · cases hl' : listAll names pfx [] max fuel (listPage names pfx [] cursor max).last with
        | nil => simp [hl'] at a3
        | cons q qs => simp only [hl'] at a3 ⊢; simpa [List.getLast?_cons_cons] using a3
    · have hmf : (listPage names pfx [] cursor max).more = false := by rw [hm]; simpa using hmore
      simp only [hmf, Bool.false_eq_true, if_false]
      refine ⟨?_, ?_, ?_⟩
      · simp only [List.flatMap_cons, List.flatMap_nil, List.append_nil, hi]
        exact List.take_of_length_le (by omega)
      · intro p hp'
        simp only [List.mem_singleton] at hp'
        subst hp'; exact ⟨by rw [hi]; simp; omega, hp⟩
      · simp [hmf]

end Emu.Proofs.Listing
