/-
  The stamps of a table say exactly what its history says: how long ago the last read was, and —
  if anything was written (or the table created) since the last pass — how long ago the last write.
  Hence the background loop's pass runs only on a table that is not in use.
-/
import Emu.Bt.Activity

namespace Emu.Proofs.Activity
open Emu Emu.Bt

/-- the stamps after a history given most recent first, starting from `a` -/
def afterRevFrom (a : Activity) : List Ev → Activity
  | [] => a
  | e :: older => (afterRevFrom a older).apply e

def afterRev (h : List Ev) : Activity := afterRevFrom {} h

theorem afterRevFrom_snoc (a : Activity) (e : Ev) (l : List Ev) :
    afterRevFrom a (l ++ [e]) = afterRevFrom (a.apply e) l := by
  induction l with
  | nil => rfl
  | cons x xs ih => simp [afterRevFrom, ih]

theorem foldl_eq_afterRevFrom (h : List Ev) : ∀ a : Activity, h.foldl Activity.apply a = afterRevFrom a h.reverse := by
  induction h with
  | nil => intro a; rfl
  | cons e t ih =>
    intro a
    rw [List.foldl_cons, ih, List.reverse_cons, afterRevFrom_snoc]

theorem after_eq_afterRev (h : List Ev) : Activity.after h = afterRev h.reverse :=
  foldl_eq_afterRevFrom h {}

theorem afterRev_spec (h : List Ev) :
    afterRev h = { sinceRead := backSince (· == .read) h,
                   sinceWrite := if backDirty h then some (backSince (· == .write) h) else none } := by
  unfold afterRev
  induction h with
  | nil => rfl
  | cons e older ih =>
    cases e with
    | read => simp [afterRevFrom, ih, Activity.apply, Activity.read, backSince, backDirty, Ev.span]
    | write => simp [afterRevFrom, ih, Activity.apply, Activity.write, backSince, backDirty, Ev.span]
    | pass => simp [afterRevFrom, ih, Activity.apply, Activity.passed, backSince, backDirty, Ev.span]
    | wait d =>
      cases hb : backDirty older <;>
        simp [afterRevFrom, ih, Activity.apply, Activity.wait, backSince, backDirty, Ev.span, hb, Nat.add_comm]

/-- **What the stamps mean.** -/
theorem stamps_say_the_history (h : List Ev) :
    Activity.after h = { sinceRead := backSince (· == .read) h.reverse,
                         sinceWrite := if backDirty h.reverse then some (backSince (· == .write) h.reverse) else none } := by
  rw [after_eq_afterRev, afterRev_spec]

/-- **The loop's pass runs only on a quiet table**: something was written (or the table was
    created) since the last pass, and for `quiesceNanos` there has been neither a read nor a write. -/
theorem pass_runs_iff (h : List Ev) :
    (Activity.after h).quiet = true ↔
      backDirty h.reverse = true ∧
      Generated.quiesceNanos ≤ (backSince (· == .write) h.reverse : Int) ∧
      Generated.quiesceNanos ≤ (backSince (· == .read) h.reverse : Int) := by
  rw [stamps_say_the_history]
  unfold Activity.quiet
  cases backDirty h.reverse <;> simp

/-- in particular: a request fewer than `quiesceNanos` ago keeps the pass away, whatever came before -/
theorem recent_request_keeps_the_pass_away (before : List Ev) (e : Ev) (waits : List Nat)
    (he : e = .read ∨ e = .write) (hw : (waits.sum : Int) < Generated.quiesceNanos) :
    (Activity.after (before ++ e :: waits.map Ev.wait)).quiet = false := by
  have key : ∀ (p : Ev → Bool) (older : List Ev), p e = true → (∀ d, p (.wait d) = false) →
      ∀ ws : List Nat, backSince p (ws.map Ev.wait ++ e :: older) = ws.sum := by
    intro p older hp hnw ws
    induction ws with
    | nil => simp [backSince, hp]
    | cons d t ih => simp [backSince, hnw, Ev.span, ih]
  have hsum : (waits.reverse.sum : Int) = (waits.sum : Int) := by rw [List.sum_reverse]
  cases hq : (Activity.after (before ++ e :: waits.map Ev.wait)).quiet with
  | false => rfl
  | true =>
    rw [pass_runs_iff] at hq
    obtain ⟨_, h2, h3⟩ := hq
    simp only [List.reverse_append, List.reverse_cons, List.append_assoc, List.singleton_append, ← List.map_reverse] at h2 h3
    rcases he with rfl | rfl
    · rw [key (· == .read) before.reverse (by rfl) (by intro d; rfl)] at h3; omega
    · rw [key (· == .write) before.reverse (by rfl) (by intro d; rfl)] at h2; omega

end Emu.Proofs.Activity
