/-
  Garbage collection: `applyGC` keeps a prefix of the (descending) cell list; which prefix.
-/
import Emu.Proofs.BtRows
import Emu.Bt.Admin

namespace Emu.Proofs.Gc
open Emu Emu.Bt Emu.Proofs.BtRow

/-- cut-off of a max-age rule, in microseconds -/
def cutoff (now sec nanos : Int) : Int := now - sec * 1000000 - Int.tdiv nanos 1000

-- number of cells a rule retains (counted on the list it is given)
mutual
def keep (now : Int) : GcRule → List Cell → Nat
  | .maxVersions n, cs => if n ≥ 0 then min n.toNat cs.length else cs.length
  | .maxAge sec nanos, cs => (cs.takeWhile fun c => decide (c.ts ≥ cutoff now sec nanos)).length
  | .union rs, cs => keeps now rs cs
  | .other, cs => cs.length
def keeps (now : Int) : List GcRule → List Cell → Nat
  | [], cs => cs.length
  | r :: rs, cs => min (keep now r cs) (keeps now rs cs)
end

theorem takeWhile_eq_take (p : Cell → Bool) (cs : List Cell) : cs.takeWhile p = cs.take (cs.takeWhile p).length := by
  induction cs with
  | nil => rfl
  | cons x xs ih =>
    simp only [List.takeWhile_cons]
    split
    · simp only [List.length_cons, List.take_succ_cons]; rw [← ih]
    · rfl

theorem takeWhile_take_len (p : Cell → Bool) (cs : List Cell) (k : Nat) :
    ((cs.take k).takeWhile p).length = min (cs.takeWhile p).length k := by
  induction cs generalizing k with
  | nil => simp
  | cons x xs ih =>
    cases k with
    | zero => simp
    | succ k =>
      simp only [List.take_succ_cons, List.takeWhile_cons]
      split
      · simp only [List.length_cons, ih]; omega
      · simp

-- `keep` is at most the length, and on a prefix it is the minimum
mutual
theorem keep_le (now : Int) : ∀ (r : GcRule) (cs : List Cell), keep now r cs ≤ cs.length
  | .maxVersions n, cs => by unfold keep; split <;> omega
  | .maxAge sec nanos, cs => by
    unfold keep
    have := takeWhile_eq_take (fun c => decide (c.ts ≥ cutoff now sec nanos)) cs
    have hl := congrArg List.length this
    simp only [List.length_take] at hl; omega
  | .union rs, cs => by unfold keep; exact keeps_le now rs cs
  | .other, cs => by unfold keep; exact Nat.le_refl _
theorem keeps_le (now : Int) : ∀ (rs : List GcRule) (cs : List Cell), keeps now rs cs ≤ cs.length
  | [], cs => by unfold keeps; exact Nat.le_refl _
  | r :: rs, cs => by unfold keeps; have := keeps_le now rs cs; omega
end

mutual
theorem keep_take (now : Int) : ∀ (r : GcRule) (cs : List Cell) (k : Nat), k ≤ cs.length →
    keep now r (cs.take k) = min (keep now r cs) k
  | .maxVersions n, cs, k, hk => by
    unfold keep; split <;> simp [List.length_take] <;> omega
  | .maxAge sec nanos, cs, k, _ => by unfold keep; exact takeWhile_take_len _ cs k
  | .union rs, cs, k, hk => by unfold keep; exact keeps_take now rs cs k hk
  | .other, cs, k, hk => by unfold keep; simp [List.length_take]; omega
theorem keeps_take (now : Int) : ∀ (rs : List GcRule) (cs : List Cell) (k : Nat), k ≤ cs.length →
    keeps now rs (cs.take k) = min (keeps now rs cs) k
  | [], cs, k, hk => by unfold keeps; simp [List.length_take]; omega
  | r :: rs, cs, k, hk => by
    unfold keeps
    rw [keep_take now r cs k hk, keeps_take now rs cs k hk]; omega
end

-- **`applyGC` keeps exactly the first `keep` cells.**
mutual
theorem applyGC_eq_take (now : Int) : ∀ (r : GcRule) (cs : List Cell), applyGC now r cs = cs.take (keep now r cs)
  | .maxVersions n, cs => by
    unfold applyGC keep
    split
    · rw [List.take_eq_take_iff.mpr]; simp
    · simp
  | .maxAge sec nanos, cs => by
    unfold applyGC keep
    exact takeWhile_eq_take _ cs
  | .union rs, cs => by unfold applyGC keep; exact applyGCs_eq_take now rs cs
  | .other, cs => by unfold applyGC keep; simp
theorem applyGCs_eq_take (now : Int) : ∀ (rs : List GcRule) (cs : List Cell), applyGCs now rs cs = cs.take (keeps now rs cs)
  | [], cs => by unfold applyGCs keeps; simp
  | r :: rs, cs => by
    unfold applyGCs keeps
    rw [applyGC_eq_take now r cs, applyGCs_eq_take now rs (cs.take (keep now r cs)),
      keeps_take now rs cs _ (keep_le now r cs), List.take_take]
    congr 1; omega
end

/-- max-age on a descending list: a cell is retained iff it is not older than the cut-off -/
theorem maxAge_retains_iff (now sec nanos : Int) (cs : List Cell) (h : StrictDesc cs) (c : Cell) (hc : c ∈ cs) :
    c ∈ applyGC now (.maxAge sec nanos) cs ↔ c.ts ≥ cutoff now sec nanos := by
  unfold applyGC
  show c ∈ cs.takeWhile (fun c => decide (c.ts ≥ cutoff now sec nanos)) ↔ _
  induction cs with
  | nil => cases hc
  | cons x xs ih =>
    unfold StrictDesc at h ih
    rw [List.pairwise_cons] at h
    simp only [List.takeWhile_cons]
    split
    · rename_i hx
      simp only [List.mem_cons]
      cases hc with
      | head => simp only [true_or, true_iff]; simpa using hx
      | tail _ hm =>
        have := ih h.2 hm
        constructor
        · intro h'
          cases h' with
          | inl e => rw [e]; simpa using hx
          | inr h'' => exact this.mp h''
        · intro h'; right; exact this.mpr h'
    · rename_i hx
      simp only [List.not_mem_nil, false_iff]
      have hxlt : ¬ x.ts ≥ cutoff now sec nanos := by simpa using hx
      cases hc with
      | head => exact hxlt
      | tail _ hm => have := h.1 c hm; omega

/-- the effect of one pass on a column: the rule of its family applied to its cells -/
theorem cellsOf_gcRow (now : Int) (s : Schema) (r : Row) (fam q : Bytes) :
    (gcRow now s r).cellsOf fam q =
      match s.rule? fam with
      | none => r.cellsOf fam q
      | some rule => applyGC now rule (r.cellsOf fam q) := by
  rw [row_cellsOf_eq, row_cellsOf_eq]
  simp only [gcRow, Row.getFamily, List.find?_map]
  have hname : ((fun f : Family => f.name == fam) ∘ gcFamily now s) = (fun f : Family => f.name == fam) := by
    funext f; simp only [Function.comp, gcFamily]; cases s.rule? f.name <;> rfl
  rw [hname]
  cases hf : r.fams.find? (fun f => f.name == fam) with
  | none => cases s.rule? fam <;> simp [applyGC_eq_take]
  | some f =>
    have hfn : f.name = fam := by simpa using List.find?_some hf
    simp only [Option.map_some, gcFamily, hfn]
    cases hr : s.rule? fam with
    | none => rfl
    | some rule =>
      simp only [Family.cellsOf, Family.getColumn, List.find?_map]
      have hq : ((fun c : Column => c.qual == q) ∘ fun c : Column => { c with cells := applyGC now rule c.cells })
          = (fun c : Column => c.qual == q) := by funext c; rfl
      rw [hq]
      cases hc : f.cols.find? (fun c => c.qual == q) with
      | none => simp [applyGC_eq_take]
      | some c => rfl

end Emu.Proofs.Gc
