/-
  Row filters against the flat view of a row (the list of (family, qualifier, cell) in emission
  order): limit = take, offset = drop, per-cell filters = filter/map, chain = composition.
-/
import Emu.Bt.Filter
import Emu.Bt.Read

namespace Emu.Proofs.Filter
open Emu Emu.Bt

def colFlat (fam : Bytes) (c : Column) : List (Bytes × Bytes × Cell) := c.cells.map fun cell => (fam, c.qual, cell)
def famFlat (f : Family) : List (Bytes × Bytes × Cell) := f.cols.flatMap (colFlat f.name)

theorem flat_eq (r : Row) : r.flat = r.fams.flatMap famFlat := rfl

/-! ### cells-per-row limit = take -/

theorem rowLimitCols_spec (fam : Bytes) (lim : Nat) (cols : List Column) :
    (rowLimitCols lim cols).2.flatMap (colFlat fam) = (cols.flatMap (colFlat fam)).take lim ∧
    (rowLimitCols lim cols).1 = lim - (cols.flatMap (colFlat fam)).length := by
  induction cols generalizing lim with
  | nil => simp [rowLimitCols]
  | cons c cs ih =>
    simp only [rowLimitCols, List.flatMap_cons]
    have := ih (lim - c.cells.length)
    constructor
    · rw [List.take_append, this.1]
      simp [colFlat, List.map_take]
    · rw [this.2]; simp [colFlat]; omega

theorem rowLimitFams_spec (lim : Nat) (fams : List Family) :
    (rowLimitFams lim fams).flatMap famFlat = (fams.flatMap famFlat).take lim := by
  induction fams generalizing lim with
  | nil => simp [rowLimitFams]
  | cons f fs ih =>
    simp only [rowLimitFams, List.flatMap_cons]
    have hc := rowLimitCols_spec f.name lim f.cols
    rw [List.take_append]
    show famFlat { f with cols := (rowLimitCols lim f.cols).2 } ++ _ = _
    simp only [famFlat]
    rw [hc.1, ih, hc.2]

/-! ### cells-per-row offset = drop -/

theorem rowOffsetCols_spec (fam : Bytes) (off : Nat) (cols : List Column) :
    (rowOffsetCols off cols).2.flatMap (colFlat fam) = (cols.flatMap (colFlat fam)).drop off ∧
    (rowOffsetCols off cols).1 = off - (cols.flatMap (colFlat fam)).length := by
  induction cols generalizing off with
  | nil => simp [rowOffsetCols]
  | cons c cs ih =>
    simp only [rowOffsetCols, List.flatMap_cons]
    have := ih (off - c.cells.length)
    constructor
    · rw [List.drop_append, this.1]
      simp [colFlat, List.map_drop]
    · rw [this.2]; simp [colFlat]; omega

theorem rowOffsetFams_spec (off : Nat) (fams : List Family) :
    (rowOffsetFams off fams).flatMap famFlat = (fams.flatMap famFlat).drop off := by
  induction fams generalizing off with
  | nil => simp [rowOffsetFams]
  | cons f fs ih =>
    simp only [rowOffsetFams, List.flatMap_cons]
    have hc := rowOffsetCols_spec f.name off f.cols
    rw [List.drop_append]
    show famFlat { f with cols := (rowOffsetCols off f.cols).2 } ++ _ = _
    simp only [famFlat]
    rw [hc.1, ih, hc.2]

/-! ### per-cell filters = filter + map on the flat view -/

def cellStep (f : Filter) (x : Bytes × Bytes × Cell) : Option (Bytes × Bytes × Cell) :=
  if includeCell f x.1 x.2.1 x.2.2 then some (x.1, x.2.1, modifyCell f x.2.2) else none

theorem flat_perCell (f : Filter) (r : Row) :
    (filterPerCell f r).2.flat = r.flat.filterMap (cellStep f) := by
  simp only [filterPerCell, flat_eq, List.flatMap_map, List.filterMap_flatMap]
  congr 1
  funext fm
  simp only [famFlat, List.flatMap_map, List.filterMap_flatMap]
  congr 1
  funext c
  simp only [colFlat, filterCells, List.map_map, List.filterMap_map]
  induction c.cells with
  | nil => rfl
  | cons x xs ih =>
    simp only [List.filter_cons, List.filterMap_cons, Function.comp, cellStep]
    split <;> simp_all [cellStep, Function.comp]

theorem cellCount_eq_flat_length (r : Row) : r.cellCount = r.flat.length := by
  simp only [Row.cellCount, flat_eq, List.length_flatMap, famFlat, colFlat, List.length_map]

/-- a per-cell filter matches iff it lets at least one cell through -/
theorem perCell_match (f : Filter) (r : Row) :
    (filterPerCell f r).1 = decide ((r.flat.filterMap (cellStep f)).length > 0) := by
  have h := flat_perCell f r
  simp only [filterPerCell] at h ⊢
  rw [cellCount_eq_flat_length, h]

/-- a filter that admits every cell unchanged leaves the row as it is -/
theorem filterPerCell_id (f : Filter) (r : Row) (hi : ∀ fam q c, includeCell f fam q c = true)
    (hm : ∀ c, modifyCell f c = c) : (filterPerCell f r).2 = r := by
  have hcells : ∀ fam q cs, filterCells f fam q cs = cs := by
    intro fam q cs
    simp only [filterCells]
    rw [List.filter_eq_self.mpr (fun c _ => hi fam q c)]
    induction cs with
    | nil => rfl
    | cons c cs ih => simp [hm, ih]
  cases r with
  | mk k fams =>
    simp only [filterPerCell]
    congr 1
    have : ∀ fm : Family, ({ fm with cols := fm.cols.map fun c => { c with cells := filterCells f fm.name c.qual c.cells } } : Family) = fm := by
      intro fm
      cases fm with
      | mk n cols =>
        simp only [Family.mk.injEq, true_and]
        have : ∀ c : Column, ({ c with cells := filterCells f n c.qual c.cells } : Column) = c := by
          intro c; cases c; simp [hcells]
        simp [this]
    simp [this]

/-! ### cells-per-column limit -/

theorem colLimit_spec (n : Nat) (r : Row) :
    (colLimitRow n r).fams = r.fams.map fun fm =>
      { fm with cols := fm.cols.map fun c => { c with cells := c.cells.take n } } := rfl

end Emu.Proofs.Filter
